/* C11 / C12 / C08 (PLAIN, BYTE_STREAM_SPLIT, dictionary parts).
 *
 * Components:
 *   plain    pl_enc / pl_dec / bss_enc / bss_dec            real plain.c, byte_stream_split.c
 *   dict     dict_build (static builder of dictionary.c, compiled from the working tree by
 *            #include), dict_enc (public encoders), dict_dec (public decoders; indices < 2^31)
 *   dictidx  dict_dec with indices >= 2^31 at width 32 (defect F7: SEGV on the pinned code)
 *
 * Every buffer handed to carquet is an exact-size heap block.  The harness has its own small
 * "specification" encoders (PLAIN, BYTE_STREAM_SPLIT, RLE/bit-packed hybrid) to build decoder
 * inputs; the Lean driver checks those bytes against Carquet.Spec before trusting them.
 */
#include "common.h"
#include <carquet/error.h>
#include <carquet/types.h>
#include "core/buffer.h"
#include "encoding/plain.h"
#include "encoding/rle.h"

carquet_status_t carquet_byte_stream_split_encode_float(const float*, int64_t, uint8_t*, size_t, size_t*);
carquet_status_t carquet_byte_stream_split_decode_float(const uint8_t*, size_t, float*, int64_t);
carquet_status_t carquet_byte_stream_split_encode_double(const double*, int64_t, uint8_t*, size_t, size_t*);
carquet_status_t carquet_byte_stream_split_decode_double(const uint8_t*, size_t, double*, int64_t);
carquet_status_t carquet_byte_stream_split_encode(const uint8_t*, int64_t, int32_t, uint8_t*, size_t, size_t*);
carquet_status_t carquet_byte_stream_split_decode(const uint8_t*, size_t, int32_t, uint8_t*, int64_t);

carquet_status_t carquet_dictionary_encode_int32(const int32_t*, int64_t, carquet_buffer_t*, carquet_buffer_t*);
carquet_status_t carquet_dictionary_encode_int64(const int64_t*, int64_t, carquet_buffer_t*, carquet_buffer_t*);
carquet_status_t carquet_dictionary_encode_float(const float*, int64_t, carquet_buffer_t*, carquet_buffer_t*);
carquet_status_t carquet_dictionary_encode_double(const double*, int64_t, carquet_buffer_t*, carquet_buffer_t*);
carquet_status_t carquet_dictionary_encode_byte_array(const carquet_byte_array_t*, int64_t, carquet_buffer_t*, carquet_buffer_t*);
carquet_status_t carquet_dictionary_decode_int32(const uint8_t*, size_t, int32_t, const uint8_t*, size_t, int32_t*, int64_t);
carquet_status_t carquet_dictionary_decode_int64(const uint8_t*, size_t, int32_t, const uint8_t*, size_t, int64_t*, int64_t);
carquet_status_t carquet_dictionary_decode_float(const uint8_t*, size_t, int32_t, const uint8_t*, size_t, float*, int64_t);
carquet_status_t carquet_dictionary_decode_double(const uint8_t*, size_t, int32_t, const uint8_t*, size_t, double*, int64_t);

/* ---- the static builder of dictionary.c: same source text, public symbols renamed ---- */
#define carquet_dictionary_encode_int32 hxcopy_dictionary_encode_int32
#define carquet_dictionary_encode_int64 hxcopy_dictionary_encode_int64
#define carquet_dictionary_encode_float hxcopy_dictionary_encode_float
#define carquet_dictionary_encode_double hxcopy_dictionary_encode_double
#define carquet_dictionary_encode_byte_array hxcopy_dictionary_encode_byte_array
#define carquet_dictionary_decode_int32 hxcopy_dictionary_decode_int32
#define carquet_dictionary_decode_int64 hxcopy_dictionary_decode_int64
#define carquet_dictionary_decode_float hxcopy_dictionary_decode_float
#define carquet_dictionary_decode_double hxcopy_dictionary_decode_double
#include "encoding/dictionary.c"
#undef carquet_dictionary_encode_int32
#undef carquet_dictionary_encode_int64
#undef carquet_dictionary_encode_float
#undef carquet_dictionary_encode_double
#undef carquet_dictionary_encode_byte_array
#undef carquet_dictionary_decode_int32
#undef carquet_dictionary_decode_int64
#undef carquet_dictionary_decode_float
#undef carquet_dictionary_decode_double

/* ------------------------------------------------------------------ helpers */

static const char* stname(carquet_status_t s) {
    switch (s) {
    case CARQUET_OK: return "ok";
    case CARQUET_ERROR_INVALID_ARGUMENT: return "invalid_argument";
    case CARQUET_ERROR_OUT_OF_MEMORY: return "oom";
    case CARQUET_ERROR_DECODE: return "decode";
    case CARQUET_ERROR_ENCODE: return "encode";
    default: return "other";
    }
}

typedef enum { T_BOOL, T_I32, T_I64, T_I96, T_F32, T_F64, T_BA, T_FLBA, T_N } ptype;
static const char* const tnames[T_N] = { "bool", "i32", "i64", "i96", "f32", "f64", "ba", "flba" };
static const carquet_physical_type_t tphys[T_N] = {
    CARQUET_PHYSICAL_BOOLEAN, CARQUET_PHYSICAL_INT32, CARQUET_PHYSICAL_INT64, CARQUET_PHYSICAL_INT96,
    CARQUET_PHYSICAL_FLOAT, CARQUET_PHYSICAL_DOUBLE, CARQUET_PHYSICAL_BYTE_ARRAY,
    CARQUET_PHYSICAL_FIXED_LEN_BYTE_ARRAY };
static int tsize(ptype t, int k) {
    switch (t) { case T_I32: case T_F32: return 4; case T_I64: case T_F64: return 8; case T_I96: return 12;
                 case T_FLBA: return k; case T_BOOL: return 1; default: return 0; }
}
static int tparse(const char* s) { for (int i = 0; i < T_N; i++) if (s && !strcmp(s, tnames[i])) return i; return -1; }

/* statistics */
static long st_ops[16], st_err, st_ok, st_len[4], st_f1, st_chain_max, st_distinct_max;
static void stat_len(size_t n) { st_len[n == 0 ? 0 : n < 9 ? 1 : n < 71 ? 2 : 3]++; }

/* a typed array is handled through its memory image (little-endian host); numbers are printed by
 * reading the typed array, never by re-interpreting the encoder's output */
static void print_u32s(FILE* f, const uint32_t* v, size_t n) {
    if (!n) { fputc('-', f); return; }
    for (size_t i = 0; i < n; i++) fprintf(f, i ? ",%u" : "%u", v[i]);
}
static void print_u64s(FILE* f, const uint64_t* v, size_t n) {
    if (!n) { fputc('-', f); return; }
    for (size_t i = 0; i < n; i++) fprintf(f, i ? ",%llu" : "%llu", (unsigned long long)v[i]);
}
/* numbers of a fixed-width typed array whose image is img (n elements) */
static void print_typed(FILE* f, ptype t, const uint8_t* img, size_t n) {
    if (t == T_I32 || t == T_F32) { uint32_t* a = (uint32_t*)h_alloc(n * 4); memcpy(a, img, n * 4); print_u32s(f, a, n); free(a); }
    else if (t == T_I96) { uint32_t* a = (uint32_t*)h_alloc(n * 12); memcpy(a, img, n * 12); print_u32s(f, a, n * 3); free(a); }
    else { uint64_t* a = (uint64_t*)h_alloc(n * 8); memcpy(a, img, n * 8); print_u64s(f, a, n); free(a); }
}
static uint64_t* parse_u64s(const char* v, size_t* n) {
    *n = 0;
    if (!v || !strcmp(v, "-")) return (uint64_t*)h_alloc(0);
    size_t cnt = 1;
    for (const char* c = v; *c; c++) if (*c == ',') cnt++;
    uint64_t* a = (uint64_t*)h_alloc(cnt * 8);
    const char* c = v;
    for (size_t i = 0; i < cnt; i++) { a[i] = strtoull(c, (char**)&c, 10); if (*c == ',') c++; }
    *n = cnt;
    return a;
}
/* image of a typed array from a decimal list */
static uint8_t* parse_typed(ptype t, const char* v, size_t* count) {
    size_t n; uint64_t* a = parse_u64s(v, &n);
    int sz = (t == T_I64 || t == T_F64) ? 8 : 4;
    uint8_t* img = h_alloc(n * sz);
    for (size_t i = 0; i < n; i++) { if (sz == 8) memcpy(img + 8 * i, &a[i], 8); else { uint32_t x = (uint32_t)a[i]; memcpy(img + 4 * i, &x, 4); } }
    free(a);
    *count = (t == T_I96) ? n / 3 : n;
    return img;
}

/* byte-array value lists: "x6162,x,x63" / "-" */
typedef struct { size_t n; uint8_t** data; size_t* len; } balist;
static void ba_free(balist* l) { for (size_t i = 0; i < l->n; i++) free(l->data[i]); free(l->data); free(l->len); }
static void ba_print(FILE* f, const balist* l) {
    if (!l->n) { fputc('-', f); return; }
    for (size_t i = 0; i < l->n; i++) { if (i) fputc(',', f); h_hex(f, l->data[i], l->len[i]); }
}
static balist ba_parse(const char* v) {
    balist l = {0, NULL, NULL};
    if (!v || !strcmp(v, "-")) { l.data = (uint8_t**)h_alloc(0); l.len = (size_t*)h_alloc(0); return l; }
    size_t cnt = 1;
    for (const char* c = v; *c; c++) if (*c == ',') cnt++;
    l.n = cnt; l.data = (uint8_t**)h_alloc(cnt * sizeof(uint8_t*)); l.len = (size_t*)h_alloc(cnt * sizeof(size_t));
    char* copy = strdup(v); char* save = NULL; size_t i = 0;
    for (char* t = strtok_r(copy, ",", &save); t && i < cnt; t = strtok_r(NULL, ",", &save), i++)
        l.data[i] = h_unhex(t, &l.len[i]);
    free(copy);
    return l;
}

/* special bit patterns: extremes, infinities, NaNs (quiet, signalling, payloads, negative), -0.0,
 * denormals */
static const uint32_t sp32[] = { 0, 1, 0x7FFFFFFFu, 0x80000000u, 0xFFFFFFFFu, 0x7F800000u, 0xFF800000u,
    0x7FC00000u, 0x7FA00000u, 0x7FC00001u, 0xFFC00000u, 0x00000001u, 0x807FFFFFu, 0x3F800000u, 0xBF800000u,
    0x000000FFu, 0x0000FF00u, 0x00FF0000u, 0xFF000000u, 0x01020304u };
static const uint64_t sp64[] = { 0, 1, 0x7FFFFFFFFFFFFFFFull, 0x8000000000000000ull, 0xFFFFFFFFFFFFFFFFull,
    0x7FF0000000000000ull, 0xFFF0000000000000ull, 0x7FF8000000000000ull, 0x7FF4000000000000ull,
    0x7FF8000000000001ull, 0xFFF8000000000000ull, 0x0000000000000001ull, 0x800FFFFFFFFFFFFFull,
    0x3FF0000000000000ull, 0x00000000FFFFFFFFull, 0xFFFFFFFF00000000ull, 0x0102030405060708ull };
static uint32_t gen32(hctx* h) { return h_chance(h, 1, 2) ? sp32[h_below(h, sizeof sp32 / 4)] : (h_chance(h, 1, 3) ? (uint32_t)h_below(h, 5) : (uint32_t)h_next(h)); }
static uint64_t gen64(hctx* h) { return h_chance(h, 1, 2) ? sp64[h_below(h, sizeof sp64 / 8)] : (h_chance(h, 1, 3) ? h_below(h, 5) : h_next(h)); }
static void gen_image(hctx* h, ptype t, uint8_t* img, size_t n, int k) {
    if (t == T_I32 || t == T_F32) for (size_t i = 0; i < n; i++) { uint32_t x = gen32(h); memcpy(img + 4 * i, &x, 4); }
    else if (t == T_I96) for (size_t i = 0; i < 3 * n; i++) { uint32_t x = gen32(h); memcpy(img + 4 * i, &x, 4); }
    else if (t == T_I64 || t == T_F64) for (size_t i = 0; i < n; i++) { uint64_t x = gen64(h); memcpy(img + 8 * i, &x, 8); }
    else h_fill(h, img, n * (size_t)k, (int)h_below(h, 5));
}

/* ---- harness-side specification encoders (checked against Carquet.Spec by the driver) ---- */
static size_t spec_plain_bool(const uint8_t* vals, size_t n, uint8_t* out) {   /* LSB first */
    size_t nb = (n + 7) / 8;
    for (size_t j = 0; j < nb; j++) {
        unsigned b = 0;
        for (size_t i = 8 * j; i < n && i < 8 * j + 8; i++) b += (vals[i] ? 1u : 0u) * (1u << (i - 8 * j));
        out[j] = (uint8_t)b;
    }
    return nb;
}
static void spec_le(uint64_t x, int bytes, uint8_t* out) { for (int i = 0; i < bytes; i++) { out[i] = (uint8_t)(x % 256); x /= 256; } }
/* fixed-width: from the numbers, not by memcpy */
static void spec_plain_fixed(ptype t, const uint8_t* img, size_t n, uint8_t* out) {
    if (t == T_I64 || t == T_F64) for (size_t i = 0; i < n; i++) { uint64_t x; memcpy(&x, img + 8 * i, 8); spec_le(x, 8, out + 8 * i); }
    else { size_t m = (t == T_I96) ? 3 * n : n; for (size_t i = 0; i < m; i++) { uint32_t x; memcpy(&x, img + 4 * i, 4); spec_le(x, 4, out + 4 * i); } }
}
static size_t spec_plain_ba(const balist* l, uint8_t* out) {
    size_t p = 0;
    for (size_t i = 0; i < l->n; i++) { spec_le(l->len[i], 4, out + p); p += 4; memcpy(out + p, l->data[i], l->len[i]); p += l->len[i]; }
    return p;
}
static size_t ba_total(const balist* l) { size_t s = 0; for (size_t i = 0; i < l->n; i++) s += 4 + l->len[i]; return s; }
static void spec_bss(const uint8_t* vals, size_t n, int k, uint8_t* out) {   /* k streams */
    size_t p = 0;
    for (int b = 0; b < k; b++) for (size_t i = 0; i < n; i++) out[p++] = vals[i * (size_t)k + (size_t)b];
}

/* ------------------------------------------------------------------ PLAIN encode */

static int64_t call_plain_dec(ptype t, int via, const uint8_t* in, size_t insz, void* out, int64_t count, int k) {
    if (via) return carquet_decode_plain(in, insz, tphys[t], (int32_t)k, out, count);
    switch (t) {
    case T_BOOL: return carquet_decode_plain_boolean(in, insz, (uint8_t*)out, count);
    case T_I32: return carquet_decode_plain_int32(in, insz, (int32_t*)out, count);
    case T_I64: return carquet_decode_plain_int64(in, insz, (int64_t*)out, count);
    case T_I96: return carquet_decode_plain_int96(in, insz, (carquet_int96_t*)out, count);
    case T_F32: return carquet_decode_plain_float(in, insz, (float*)out, count);
    case T_F64: return carquet_decode_plain_double(in, insz, (double*)out, count);
    case T_BA: return carquet_decode_plain_byte_array(in, insz, (carquet_byte_array_t*)out, count);
    default: return carquet_decode_plain_fixed_byte_array(in, insz, (uint8_t*)out, count, (int32_t)k);
    }
}

/* img: typed image (fixed types), the uint8_t array (bool), the flat buffer (flba); bl: byte arrays */
static void run_pl_enc(hctx* h, ptype t, const uint8_t* img, size_t n, int k, const balist* bl) {
    FILE* f = h->out;
    size_t isz = (t == T_BA) ? 0 : n * (size_t)tsize(t, k);
    uint8_t* in = h_alloc(isz);
    if (isz) memcpy(in, img, isz);
    fprintf(f, "pl_enc t=%s ", tnames[t]);
    if (t == T_BOOL) { fprintf(f, "vals="); h_hex(f, in, n); }
    else if (t == T_FLBA) { fprintf(f, "k=%d count=%zu vals=", k, n); h_hex(f, in, isz); }
    else if (t == T_BA) { fprintf(f, "vals="); ba_print(f, bl); }
    else { fprintf(f, "vals="); print_typed(f, t, in, n); }
    h_call(h);
    carquet_byte_array_t* bas = NULL;
    if (t == T_BA) {
        bas = (carquet_byte_array_t*)h_alloc(bl->n * sizeof *bas);
        for (size_t i = 0; i < bl->n; i++) { bas[i].data = bl->data[i]; bas[i].length = (int32_t)bl->len[i]; }
        n = bl->n;
    }
    carquet_buffer_t out; carquet_buffer_init(&out);
    /* every other case (odd count) encodes into a buffer that has been used before: filled with 0xFF, then cleared.  What an
     * encoder appends must not depend on what the spare capacity of the buffer still holds. */
    if (n % 2 == 1) {
        size_t dirty = isz + n + 24; uint8_t* ff = h_alloc(dirty); memset(ff, 0xFF, dirty);
        (void)!carquet_buffer_append(&out, ff, dirty); carquet_buffer_clear(&out); free(ff);
    }
    /* ... and in one case of three the buffer already holds bytes (levels of the page): the encoder appends behind them */
    size_t pre = (n + isz) % 3 == 1 ? 1 + (n * 5 + isz) % 37 : 0;
    for (size_t q = 0; q < pre; q++) { uint8_t c = (uint8_t)(0x5A ^ q); (void)!carquet_buffer_append(&out, &c, 1); }
    carquet_status_t st;
    switch (t) {
    case T_BOOL: st = carquet_encode_plain_boolean(in, (int64_t)n, &out); break;
    case T_I32: st = carquet_encode_plain_int32((const int32_t*)in, (int64_t)n, &out); break;
    case T_I64: st = carquet_encode_plain_int64((const int64_t*)in, (int64_t)n, &out); break;
    case T_I96: st = carquet_encode_plain_int96((const carquet_int96_t*)in, (int64_t)n, &out); break;
    case T_F32: st = carquet_encode_plain_float((const float*)in, (int64_t)n, &out); break;
    case T_F64: st = carquet_encode_plain_double((const double*)in, (int64_t)n, &out); break;
    case T_BA: st = carquet_encode_plain_byte_array(bas, (int64_t)n, &out); break;
    default: st = carquet_encode_plain_fixed_byte_array(in, (int64_t)n, (int32_t)k, &out); break;
    }
    int pre_ok = out.size >= pre;
    for (size_t q = 0; pre_ok && q < pre; q++) if (out.data[q] != (uint8_t)(0x5A ^ q)) pre_ok = 0;
    const uint8_t* od = pre_ok ? out.data + pre : out.data; size_t on = pre_ok ? out.size - pre : out.size;
    fprintf(f, " | st=%s bytes=", stname(st)); h_hex(f, od, on);
    /* C11 predicate on the real code: the real decoder, given exactly these bytes, returns the
     * values and reports having consumed all of them */
    int rt = 0;
    if (st == CARQUET_OK) {
        uint8_t* enc = h_alloc(on); if (on) memcpy(enc, od, on);
        if (t == T_BA) {
            carquet_byte_array_t* o = (carquet_byte_array_t*)h_alloc(n * sizeof *o);
            int64_t r = carquet_decode_plain_byte_array(enc, on, o, (int64_t)n);
            rt = (r == (int64_t)on);
            for (size_t i = 0; rt && i < n; i++) {
                if ((size_t)o[i].length != bl->len[i]) { rt = 0; break; }
                for (size_t j = 0; j < bl->len[i]; j++) if (o[i].data[j] != bl->data[i][j]) rt = 0;
            }
            free(o);
        } else {
            size_t osz = (t == T_BOOL) ? n : isz;
            uint8_t* o = h_alloc(osz);
            int64_t r = call_plain_dec(t, 0, enc, on, o, (int64_t)n, k);
            rt = (r == (int64_t)on);
            if (rt && t == T_BOOL) { for (size_t i = 0; i < n; i++) if (o[i] != (in[i] ? 1 : 0)) rt = 0; }
            else if (rt && osz) rt = memcmp(o, in, osz) == 0;
            free(o);
        }
        free(enc);
        st_ok++;
    } else st_err++;
    /* every generated pl_enc input is a valid value sequence: a failing encode fails C11 too */
    fprintf(f, " p_rt=%d p_appends=%d%s\n", st == CARQUET_OK ? rt : 0, pre_ok, n == 0 ? " triv=1" : "");
    h->n_lines++; st_ops[0]++; stat_len(n);
    carquet_buffer_destroy(&out);
    free(bas); free(in);
}

/* ------------------------------------------------------------------ PLAIN decode */

/* src: "spec" (harness spec encoder, vals = original values), "mut" (mutated valid stream),
 * "raw" (arbitrary bytes), "wrap" (count so large that (size_t)count*size wraps) */
static void run_pl_dec(hctx* h, ptype t, const uint8_t* inb, size_t insz, long long count, int k, int via,
                       const char* src, const char* valstr) {
    FILE* f = h->out;
    uint8_t* in = h_alloc(insz); if (insz) memcpy(in, inb, insz);
    fprintf(f, "pl_dec t=%s src=%s via=%d count=%lld", tnames[t], src, via, count);
    if (t == T_FLBA) fprintf(f, " k=%d", k);
    if (valstr) fprintf(f, " vals=%s", valstr);
    fprintf(f, " in="); h_hex(f, in, insz);
    h_call(h);
    /* output sized for what a correct decoder can store given this input (see NOTES) */
    size_t esz = (t == T_BA) ? sizeof(carquet_byte_array_t) : (size_t)tsize(t, k > 0 ? k : 1);
    size_t obytes;
    if (count < 0) obytes = 0;
    else if (t == T_BOOL) obytes = (uint64_t)count < insz * 8 + 8 ? (size_t)count : insz * 8 + 8;
    else if (t == T_BA) obytes = ((uint64_t)count < insz / 4 + 1 ? (size_t)count : insz / 4 + 1) * esz;
    else obytes = ((uint64_t)count <= insz / esz) ? (size_t)count * esz : insz;   /* accepted => exactly count elements */
    uint8_t* out = h_alloc(obytes);
    memset(out, 0xEE, obytes ? obytes : 1);
    int64_t r = call_plain_dec(t, via, in, insz, out, (int64_t)count, k);
    fprintf(f, " | r=%lld", (long long)r);
    if (r >= 0) {
        st_ok++;
        if (t == T_BOOL) { fprintf(f, " out="); h_hex(f, out, (size_t)count); }
        else if (t == T_FLBA) { fprintf(f, " out="); h_hex(f, out, (size_t)r); }
        else if (t == T_BA) {
            carquet_byte_array_t* o = (carquet_byte_array_t*)out;
            int inside = 1; unsigned sum = 0;
            fprintf(f, " offs=");
            if (!count) fputc('-', f);
            for (long long i = 0; i < count; i++) fprintf(f, i ? ",%lld" : "%lld", (long long)(o[i].data - in));
            fprintf(f, " lens=");
            if (!count) fputc('-', f);
            for (long long i = 0; i < count; i++) {
                fprintf(f, i ? ",%d" : "%d", o[i].length);
                if (o[i].data < in || o[i].length < 0 || o[i].data + o[i].length > in + insz) inside = 0;
                else for (int32_t j = 0; j < o[i].length; j++) sum += o[i].data[j];   /* instrumented read */
            }
            fprintf(f, " p_inside=%d sum=%u", inside, sum);
        } else { fprintf(f, " out="); print_typed(f, t, out, (size_t)r / esz); }
    } else st_err++;
    fprintf(f, "%s\n", (count == 0) ? " triv=1" : "");
    h->n_lines++; st_ops[1]++; stat_len(insz);
    free(out); free(in);
}

/* ------------------------------------------------------------------ BYTE_STREAM_SPLIT */

/* kind: 0 generic (k bytes), 1 float, 2 double */
static const char* const bssk[3] = { "gen", "f32", "f64" };

static void run_bss_enc(hctx* h, int kind, int k, long long count, size_t cap, const uint8_t* vals, size_t vsz) {
    FILE* f = h->out;
    uint8_t* in = h_alloc(vsz); if (vsz) memcpy(in, vals, vsz);
    uint8_t* out = h_alloc(cap); memset(out, 0xEE, cap ? cap : 1);
    fprintf(f, "bss_enc t=%s k=%d count=%lld cap=%zu vals=", bssk[kind], k, count, cap); h_hex(f, in, vsz);
    h_call(h);
    size_t written = 0; carquet_status_t st;
    if (kind == 1) st = carquet_byte_stream_split_encode_float((const float*)in, count, out, cap, &written);
    else if (kind == 2) st = carquet_byte_stream_split_encode_double((const double*)in, count, out, cap, &written);
    else st = carquet_byte_stream_split_encode(in, count, (int32_t)k, out, cap, &written);
    fprintf(f, " | st=%s", stname(st));
    if (st == CARQUET_OK) {
        int tail = 1, rt = 0;
        for (size_t i = written; i < cap; i++) if (out[i] != 0xEE) tail = 0;
        fprintf(f, " written=%zu bytes=", written); h_hex(f, out, written <= cap ? written : cap);
        uint8_t* enc = h_alloc(written); if (written) memcpy(enc, out, written);
        uint8_t* back = h_alloc(vsz);
        carquet_status_t s2;
        if (kind == 1) s2 = carquet_byte_stream_split_decode_float(enc, written, (float*)back, count);
        else if (kind == 2) s2 = carquet_byte_stream_split_decode_double(enc, written, (double*)back, count);
        else s2 = carquet_byte_stream_split_decode(enc, written, (int32_t)k, back, count);
        rt = (s2 == CARQUET_OK) && (count <= 0 || memcmp(back, in, vsz) == 0);
        fprintf(f, " p_rt=%d p_tail=%d", rt, tail);
        free(enc); free(back); st_ok++;
    } else st_err++;
    fprintf(f, "%s\n", count <= 0 ? " triv=1" : "");
    h->n_lines++; st_ops[2]++; stat_len(vsz);
    free(in); free(out);
}

static void run_bss_dec(hctx* h, int kind, int k, long long count, const char* src, const uint8_t* data, size_t dsz,
                        const char* valstr) {
    FILE* f = h->out;
    uint8_t* in = h_alloc(dsz); if (dsz) memcpy(in, data, dsz);
    fprintf(f, "bss_dec t=%s k=%d count=%lld src=%s", bssk[kind], k, count, src);
    if (valstr) fprintf(f, " vals=%s", valstr);
    fprintf(f, " in="); h_hex(f, in, dsz);
    h_call(h);
    size_t osz = (count > 0 && k > 0 && (uint64_t)count <= dsz) ? (size_t)count * (size_t)k : 0;
    uint8_t* out = h_alloc(osz);
    carquet_status_t st;
    if (kind == 1) st = carquet_byte_stream_split_decode_float(in, dsz, (float*)out, count);
    else if (kind == 2) st = carquet_byte_stream_split_decode_double(in, dsz, (double*)out, count);
    else st = carquet_byte_stream_split_decode(in, dsz, (int32_t)k, out, count);
    fprintf(f, " | st=%s", stname(st));
    if (st == CARQUET_OK) { fprintf(f, " out="); h_hex(f, out, osz); st_ok++; } else st_err++;
    fprintf(f, "%s\n", count <= 0 ? " triv=1" : "");
    h->n_lines++; st_ops[3]++; stat_len(dsz);
    free(in); free(out);
}

/* ------------------------------------------------------------------ dictionary */

static void run_dict_build(hctx* h, int isvar, size_t sz, const balist* vals) {
    FILE* f = h->out;
    fprintf(f, "dict_build var=%d sz=%zu vals=", isvar, sz); ba_print(f, vals);
    h_call(h);
    dict_builder_t b;
    carquet_status_t st = dict_builder_init(&b, sz, isvar != 0);
    for (size_t i = 0; st == CARQUET_OK && i < vals->n; i++) {
        uint8_t* v = h_alloc(vals->len[i]); memcpy(v, vals->data[i], vals->len[i]);
        st = dict_builder_add(&b, v, vals->len[i]);
        free(v);
    }
    fprintf(f, " | st=%s", stname(st));
    if (st == CARQUET_OK) {
        fprintf(f, " idx="); print_u32s(f, b.indices, b.indices_count);
        fprintf(f, " dict="); h_hex(f, b.dict_buffer.data, b.dict_buffer.size);
        long chain = 0;
        for (size_t i = 0; i < b.num_buckets; i++) { long c = 0; for (dict_entry_t* e = b.buckets[i]; e; e = e->next) c++; if (c > chain) chain = c; }
        fprintf(f, " cnt=%zu bw=%d chain=%ld", b.count, bit_width_for_count((uint32_t)b.count), chain);
        if (chain > st_chain_max) st_chain_max = chain;
        if ((long)b.count > st_distinct_max) st_distinct_max = (long)b.count;
        st_ok++;
    } else st_err++;
    fprintf(f, "%s\n", vals->n == 0 ? " triv=1" : "");
    dict_builder_destroy(&b);
    h->n_lines++; st_ops[4]++; stat_len(vals->n);
}

/* F1 (rle.c: a pending partial bit-packed group is zero-padded when a run of >= 8 follows) is
 * another component's finding; index sequences inside its region are still encoded and their
 * dictionary page / width byte compared, but the round trip through the index stream is reported
 * as information (rt=) instead of as a predicate (p_rt=). */
static int f1_region(const uint32_t* idx, size_t n) {
    size_t lit = 0, i = 0;
    while (i < n) {
        size_t j = i; while (j < n && idx[j] == idx[i]) j++;
        size_t len = j - i;
        if (len >= 8) { if (lit % 8) return 1; lit = 0; } else lit += len;
        i = j;
    }
    return 0;
}

/* kind: 0 i32, 1 i64, 2 f32, 3 f64, 4 ba */
static const char* const dkind[5] = { "i32", "i64", "f32", "f64", "ba" };
static int dsize(int kind) { return (kind == 0 || kind == 2) ? 4 : 8; }
static ptype dptype(int kind) { return kind == 0 ? T_I32 : kind == 1 ? T_I64 : kind == 2 ? T_F32 : T_F64; }

static void run_dict_enc(hctx* h, int kind, const uint8_t* img, size_t n, const balist* bl) {
    FILE* f = h->out;
    size_t sz = kind == 4 ? 0 : (size_t)dsize(kind);
    uint8_t* in = h_alloc(n * sz); if (n * sz) memcpy(in, img, n * sz);
    fprintf(f, "dict_enc t=%s vals=", dkind[kind]);
    if (kind == 4) { ba_print(f, bl); n = bl->n; } else print_typed(f, dptype(kind), in, n);
    h_call(h);
    carquet_byte_array_t* bas = NULL;
    if (kind == 4) {
        bas = (carquet_byte_array_t*)h_alloc(n * sizeof *bas);
        for (size_t i = 0; i < n; i++) { bas[i].data = bl->data[i]; bas[i].length = (int32_t)bl->len[i]; }
    }
    carquet_buffer_t d, ix; carquet_buffer_init(&d); carquet_buffer_init(&ix);
    carquet_status_t st;
    switch (kind) {
    case 0: st = carquet_dictionary_encode_int32((const int32_t*)in, (int64_t)n, &d, &ix); break;
    case 1: st = carquet_dictionary_encode_int64((const int64_t*)in, (int64_t)n, &d, &ix); break;
    case 2: st = carquet_dictionary_encode_float((const float*)in, (int64_t)n, &d, &ix); break;
    case 3: st = carquet_dictionary_encode_double((const double*)in, (int64_t)n, &d, &ix); break;
    default: st = carquet_dictionary_encode_byte_array(bas, (int64_t)n, &d, &ix); break;
    }
    fprintf(f, " | st=%s", stname(st));
    if (st == CARQUET_OK) {
        /* expected first-occurrence indices, computed naively, only for the F1 classifier */
        uint32_t* exp = (uint32_t*)h_alloc(n * 4); size_t* first = (size_t*)h_alloc(n * sizeof(size_t)); size_t nd = 0;
        for (size_t i = 0; i < n; i++) {
            size_t j = 0;
            for (; j < nd; j++) {
                size_t q = first[j];
                if (kind == 4 ? (bl->len[q] == bl->len[i] && memcmp(bl->data[q], bl->data[i], bl->len[i]) == 0)
                              : memcmp(in + q * sz, in + i * sz, sz) == 0) break;
            }
            if (j == nd) first[nd++] = i;
            exp[i] = (uint32_t)j;
        }
        int f1 = f1_region(exp, n);
        st_f1 += f1;
        fprintf(f, " dict="); h_hex(f, d.data, d.size);
        fprintf(f, " ilen=%zu bw=%d f1=%d", ix.size, ix.size ? ix.data[0] : -1, f1);
        if (ix.size >= 1) {
            uint8_t* stream = h_alloc(ix.size - 1); memcpy(stream, ix.data + 1, ix.size - 1);
            uint32_t* got = (uint32_t*)h_alloc(n * 4);
            int64_t dec = carquet_rle_decode_all(stream, ix.size - 1, ix.data[0], got, (int64_t)n);
            if (!f1) { fprintf(f, " ndec=%lld idx=", (long long)dec); print_u32s(f, got, dec > 0 ? (size_t)dec : 0); }
            free(got); free(stream);
            if (kind != 4) {
                uint8_t* dd = h_alloc(d.size); if (d.size) memcpy(dd, d.data, d.size);
                uint8_t* ii = h_alloc(ix.size); memcpy(ii, ix.data, ix.size);
                uint8_t* back = h_alloc(n * sz);
                int32_t dc = (int32_t)(d.size / sz);
                carquet_status_t s2;
                switch (kind) {
                case 0: s2 = carquet_dictionary_decode_int32(dd, d.size, dc, ii, ix.size, (int32_t*)back, (int64_t)n); break;
                case 1: s2 = carquet_dictionary_decode_int64(dd, d.size, dc, ii, ix.size, (int64_t*)back, (int64_t)n); break;
                case 2: s2 = carquet_dictionary_decode_float(dd, d.size, dc, ii, ix.size, (float*)back, (int64_t)n); break;
                default: s2 = carquet_dictionary_decode_double(dd, d.size, dc, ii, ix.size, (double*)back, (int64_t)n); break;
                }
                int rt = (s2 == CARQUET_OK) && (n == 0 || memcmp(back, in, n * sz) == 0);
                fprintf(f, f1 ? " rt=%d" : " p_rt=%d", rt);
                free(dd); free(ii); free(back);
            }
        }
        free(exp); free(first); st_ok++;
    } else st_err++;
    fprintf(f, "%s\n", n == 0 ? " triv=1" : "");
    carquet_buffer_destroy(&d); carquet_buffer_destroy(&ix);
    free(bas); free(in);
    h->n_lines++; st_ops[5]++; stat_len(n);
}

/* ---- harness-side RLE / bit-packed hybrid encoder (Parquet "Run Length Encoding / Bit-Packing
 * Hybrid"): rle-run = varint(count << 1) value(ceil(w/8) bytes LE);
 * bit-packed-run = varint((groups << 1) | 1) groups*w bytes, values packed LSB first.
 * mode 0: bit-packed only, 1: RLE only, 2: RLE for runs >= 3 (random), bit-packed otherwise.
 * `held` receives the values the stream holds (padding zeros included). ---- */
static size_t put_varint(uint8_t* out, uint64_t x) { size_t p = 0; while (x >= 128) { out[p++] = (uint8_t)(x | 128); x >>= 7; } out[p++] = (uint8_t)x; return p; }
static size_t hyb_encode(hctx* h, int w, const uint32_t* v, size_t n, int mode, uint8_t* out, uint32_t* held, size_t* nheld) {
    size_t p = 0, i = 0, nh = 0; int vb = (w + 7) / 8;
    while (i < n) {
        size_t run = 1; while (i + run < n && v[i + run] == v[i]) run++;
        int rle = mode == 1 || (mode == 2 && run >= 3 && h_chance(h, 2, 3));
        if (rle) {
            p += put_varint(out + p, (uint64_t)run << 1);
            for (int b = 0; b < vb; b++) out[p++] = (uint8_t)(v[i] >> (8 * b));
            for (size_t r = 0; r < run; r++) held[nh++] = v[i];
            i += run;
        } else {
            size_t maxg = (n - i + 7) / 8;
            size_t g = mode == 0 ? maxg : 1 + (size_t)h_below(h, maxg < 3 ? maxg : 3);
            p += put_varint(out + p, ((uint64_t)g << 1) | 1);
            uint64_t acc = 0; int bits = 0;
            for (size_t q = 0; q < 8 * g; q++) {
                uint32_t x = (i + q < n) ? v[i + q] : 0;
                held[nh++] = x;
                acc |= (uint64_t)x << bits; bits += w;
                while (bits >= 8) { out[p++] = (uint8_t)acc; acc >>= 8; bits -= 8; }
            }
            i += 8 * g;
        }
    }
    *nheld = nh;
    return p;
}

/* the decoders under test; `ind` = indices_data (width byte + hybrid stream), `held` = the values
 * that stream holds, in order */
static void run_dict_dec(hctx* h, int kind, const uint8_t* dict, size_t dsz, long long dc, const uint8_t* ind,
                         size_t isz, long long n, const uint32_t* held, size_t nheld, const char* note) {
    FILE* f = h->out;
    size_t sz = (size_t)dsize(kind);
    uint8_t* dd = h_alloc(dsz); if (dsz) memcpy(dd, dict, dsz);
    uint8_t* ii = h_alloc(isz); if (isz) memcpy(ii, ind, isz);
    fprintf(f, "dict_dec t=%s dc=%lld n=%lld note=%s idx=", dkind[kind], dc, n, note); print_u32s(f, held, nheld);
    fprintf(f, " dict="); h_hex(f, dd, dsz);
    fprintf(f, " ind="); h_hex(f, ii, isz);
    h_call(h);
    size_t on = n > 0 ? (size_t)n : 0;
    uint8_t* out = h_alloc(on * sz);
    carquet_status_t st;
    switch (kind) {
    case 0: st = carquet_dictionary_decode_int32(dd, dsz, (int32_t)dc, ii, isz, (int32_t*)out, n); break;
    case 1: st = carquet_dictionary_decode_int64(dd, dsz, (int32_t)dc, ii, isz, (int64_t*)out, n); break;
    case 2: st = carquet_dictionary_decode_float(dd, dsz, (int32_t)dc, ii, isz, (float*)out, n); break;
    default: st = carquet_dictionary_decode_double(dd, dsz, (int32_t)dc, ii, isz, (double*)out, n); break;
    }
    fprintf(f, " | st=%s", stname(st));
    if (st == CARQUET_OK) { fprintf(f, " out="); print_typed(f, dptype(kind), out, on); st_ok++; } else st_err++;
    fprintf(f, "%s\n", n <= 0 ? " triv=1" : "");
    free(dd); free(ii); free(out);
    h->n_lines++; st_ops[6]++; stat_len(nheld);
}

/* ------------------------------------------------------------------ generators */

static char* fmt_typed(ptype t, const uint8_t* img, size_t n) {
    char* s = NULL; size_t len = 0; FILE* m = open_memstream(&s, &len);
    print_typed(m, t, img, n); fclose(m); return s;
}
static char* fmt_hex(const uint8_t* p, size_t n) {
    char* s = NULL; size_t len = 0; FILE* m = open_memstream(&s, &len);
    h_hex(m, p, n); fclose(m); return s;
}
static char* fmt_ba(const balist* l) {
    char* s = NULL; size_t len = 0; FILE* m = open_memstream(&s, &len);
    ba_print(m, l); fclose(m); return s;
}

static void dec_variants_fixed(hctx* h, ptype t, int k, const uint8_t* img, size_t n, const char* valstr) {
    size_t sz = (size_t)tsize(t, k), esz = n * sz;
    uint8_t* enc = h_alloc(esz + 8);
    if (t == T_FLBA) memcpy(enc, img, esz); else spec_plain_fixed(t, img, n, enc);
    int all = n <= 8 || h->thorough;
    run_pl_dec(h, t, enc, esz, (long long)n, k, (int)h_below(h, 2), "spec", valstr);
    if (all || h_chance(h, 1, 2)) { h_fill(h, enc + esz, 8, 0); run_pl_dec(h, t, enc, esz + 1 + h_below(h, 7), (long long)n, k, (int)h_below(h, 2), "spec", valstr); }
    if (n > 0 && (all || h_chance(h, 1, 2))) run_pl_dec(h, t, enc, esz - 1, (long long)n, k, (int)h_below(h, 2), "mut", NULL);            /* one byte short */
    if (all || h_chance(h, 1, 3)) run_pl_dec(h, t, enc, esz, (long long)n + 1, k, (int)h_below(h, 2), "mut", NULL);                       /* one value short */
    if (n > 0 && (all || h_chance(h, 1, 3))) run_pl_dec(h, t, enc, esz, (long long)n - 1, k, (int)h_below(h, 2), "mut", NULL);            /* prefix */
    if (n > 1 && h_chance(h, 1, 3)) run_pl_dec(h, t, enc, (size_t)h_below(h, esz), (long long)n, k, (int)h_below(h, 2), "mut", NULL);     /* random cut */
    free(enc);
}

static void gen_plain_fixed(hctx* h) {
    static const ptype ts[5] = { T_I32, T_I64, T_I96, T_F32, T_F64 };
    size_t maxn = h->thorough ? 200 : 70;
    for (int ti = 0; ti < 5; ti++) {
        ptype t = ts[ti]; size_t sz = (size_t)tsize(t, 0);
        for (size_t n = 0; n <= maxn; n++) {
            int reps = n <= 8 ? 3 : 1;
            for (int r = 0; r < reps; r++) {
                uint8_t* img = h_alloc(n * sz); gen_image(h, t, img, n, 0);
                run_pl_enc(h, t, img, n, 0, NULL);
                char* vs = fmt_typed(t, img, n);
                dec_variants_fixed(h, t, 0, img, n, vs);
                free(vs); free(img);
            }
        }
        /* arbitrary bytes, arbitrary (also negative) counts */
        for (int i = 0; i < (h->thorough ? 600 : 120); i++) {
            size_t len = (size_t)h_below(h, 41); uint8_t* raw = h_alloc(len); h_fill(h, raw, len, (int)h_below(h, 5));
            long long c = (long long)h_below(h, 14) - 1;
            run_pl_dec(h, t, raw, len, c, 0, (int)h_below(h, 2), "raw", NULL);
            free(raw);
        }
        /* counts at which (size_t)count * size wraps to a small number; INT96 excluded: its
         * element loop would run past the input (see C08_plain_int96_wrap_witness) */
        if (t != T_I96) {
            long long big = (sz == 4) ? (1LL << 62) : (1LL << 61);
            uint8_t raw[24]; h_fill(h, raw, 24, 0);
            run_pl_dec(h, t, raw, 0, big, 0, 0, "wrap", NULL);
            run_pl_dec(h, t, raw, 5, big, 0, 1, "wrap", NULL);
            run_pl_dec(h, t, raw, 2 * sz, big + 1, 0, 0, "wrap", NULL);
            run_pl_dec(h, t, raw, sz - 1, big + 1, 0, 0, "wrap", NULL);
            run_pl_dec(h, t, raw, 17, big + 2, 0, 1, "wrap", NULL);
            run_pl_dec(h, t, raw, 8, 0x7FFFFFFFFFFFFFFFLL, 0, 0, "wrap", NULL);
        }
    }
    /* FIXED_LEN_BYTE_ARRAY */
    static const int ks[] = { 1, 2, 3, 5, 12, 16, 17, 33 };
    for (size_t ki = 0; ki < sizeof ks / sizeof ks[0]; ki++) {
        int k = ks[ki];
        for (size_t n = 0; n <= (h->thorough ? 60u : 24u); n++) {
            uint8_t* img = h_alloc(n * (size_t)k); gen_image(h, T_FLBA, img, n, k);
            run_pl_enc(h, T_FLBA, img, n, k, NULL);
            char* vs = fmt_hex(img, n * (size_t)k);
            dec_variants_fixed(h, T_FLBA, k, img, n, vs);
            free(vs); free(img);
        }
    }
    { uint8_t raw[16]; h_fill(h, raw, 16, 0);
      run_pl_dec(h, T_FLBA, raw, 16, 2, 0, 0, "raw", NULL);            /* fixed_len 0 */
      run_pl_dec(h, T_FLBA, raw, 16, 2, -1, 1, "raw", NULL);           /* negative */
      run_pl_dec(h, T_FLBA, raw, 16, 0, 4, 0, "raw", NULL);
      run_pl_dec(h, T_FLBA, raw, 16, -3, 4, 1, "raw", NULL);
      run_pl_dec(h, T_FLBA, raw, 0, 1LL << 34, 1 << 30, 0, "wrap", NULL);   /* product 2^64 wraps to 0 */
      run_pl_dec(h, T_FLBA, raw, 7, (1LL << 34) + 0, 1 << 30, 1, "wrap", NULL); }
}

static void gen_plain_bool(hctx* h) {
    static const size_t extra[] = { 71, 72, 73, 79, 80, 81, 127, 128, 129, 255, 256, 257, 1023, 1024, 1025 };
    size_t total = 71 + sizeof extra / sizeof extra[0];
    for (size_t q = 0; q < total; q++) {
        size_t n = q < 71 ? q : extra[q - 71];
        int reps = n <= 17 ? 4 : 2;
        for (int r = 0; r < reps; r++) {
            uint8_t* v = h_alloc(n);
            int kind = (int)h_below(h, 4);
            for (size_t i = 0; i < n; i++)
                v[i] = kind == 0 ? (uint8_t)h_below(h, 2) : kind == 1 ? (uint8_t)(h_chance(h, 1, 2) ? 0 : h_next(h)) : kind == 2 ? 1 : (uint8_t)(h_chance(h, 1, 8) ? 255 : 0);
            run_pl_enc(h, T_BOOL, v, n, 0, NULL);
            size_t nb = (n + 7) / 8;
            uint8_t* enc = h_alloc(nb + 4); spec_plain_bool(v, n, enc); h_fill(h, enc + nb, 4, 0);
            char* vs = fmt_hex(v, n);
            run_pl_dec(h, T_BOOL, enc, nb, (long long)n, 0, (int)h_below(h, 2), "spec", vs);
            run_pl_dec(h, T_BOOL, enc, nb + 1 + h_below(h, 3), (long long)n, 0, (int)h_below(h, 2), "spec", vs);
            if (n % 8) {      /* a valid stream whose padding bits are ones */
                uint8_t save = enc[nb - 1];
                enc[nb - 1] |= (uint8_t)(0xFF << (n % 8));
                run_pl_dec(h, T_BOOL, enc, nb, (long long)n, 0, (int)h_below(h, 2), "pad", vs);
                enc[nb - 1] = save;
            }
            free(vs);
            if (nb > 0) run_pl_dec(h, T_BOOL, enc, nb - 1, (long long)n, 0, (int)h_below(h, 2), "mut", NULL);   /* one byte short */
            /* counts around the capacity of the buffer: 8B-1, 8B, 8B+1 */
            if (nb > 0 && r == 0) {
                run_pl_dec(h, T_BOOL, enc, nb, (long long)(8 * nb - 1), 0, 0, "mut", NULL);
                run_pl_dec(h, T_BOOL, enc, nb, (long long)(8 * nb), 0, 1, "mut", NULL);
            }
            if (r == 0) run_pl_dec(h, T_BOOL, enc, nb, (long long)(8 * nb + 1), 0, 0, "mut", NULL);
            free(enc); free(v);
        }
    }
    for (int i = 0; i < (h->thorough ? 800 : 150); i++) {
        size_t len = (size_t)h_below(h, 12); uint8_t* raw = h_alloc(len); h_fill(h, raw, len, 0);
        run_pl_dec(h, T_BOOL, raw, len, (long long)h_below(h, 8 * len + 10) - 1, 0, (int)h_below(h, 2), "raw", NULL);
        free(raw);
    }
    { uint8_t raw[4] = { 1, 2, 3, 4 };
      run_pl_dec(h, T_BOOL, raw, 4, 0x7FFFFFFFFFFFFFFFLL, 0, 0, "raw", NULL);
      run_pl_dec(h, T_BOOL, raw, 4, 0x7FFFFFFFFFFFFFF9LL, 0, 1, "raw", NULL); }
}

static balist gen_balist(hctx* h, size_t n) {
    balist l; l.n = n; l.data = (uint8_t**)h_alloc(n * sizeof(uint8_t*)); l.len = (size_t*)h_alloc(n * sizeof(size_t));
    int style = (int)h_below(h, 4);
    for (size_t i = 0; i < n; i++) {
        size_t len = style == 0 ? 0 : style == 1 ? (size_t)h_below(h, 4) : (h_chance(h, 1, 4) ? 0 : (size_t)h_below(h, 13));
        if (h_chance(h, 1, 60)) len = 250 + (size_t)h_below(h, 20);
        l.len[i] = len; l.data[i] = h_alloc(len); h_fill(h, l.data[i], len, (int)h_below(h, 5));
    }
    return l;
}

static void gen_plain_ba(hctx* h) {
    size_t maxn = h->thorough ? 120 : 70;
    for (size_t n = 0; n <= maxn; n++) {
        int reps = n <= 6 ? 4 : 1;
        for (int r = 0; r < reps; r++) {
            balist l = gen_balist(h, n);
            run_pl_enc(h, T_BA, NULL, n, 0, &l);
            size_t esz = ba_total(&l);
            uint8_t* enc = h_alloc(esz + 8); spec_plain_ba(&l, enc); h_fill(h, enc + esz, 8, 0);
            char* vs = fmt_ba(&l);
            run_pl_dec(h, T_BA, enc, esz, (long long)n, 0, (int)h_below(h, 2), "spec", vs);
            run_pl_dec(h, T_BA, enc, esz + 1 + h_below(h, 7), (long long)n, 0, (int)h_below(h, 2), "spec", vs);
            free(vs);
            run_pl_dec(h, T_BA, enc, esz, (long long)n + 1, 0, (int)h_below(h, 2), "mut", NULL);   /* one record short */
            if (n > 0) {
                if (n <= 3 || h->thorough) { for (size_t cut = 0; cut < esz; cut++) run_pl_dec(h, T_BA, enc, cut, (long long)n, 0, (int)(cut & 1), "mut", NULL); }
                else { run_pl_dec(h, T_BA, enc, esz - 1, (long long)n, 0, 0, "mut", NULL);
                       run_pl_dec(h, T_BA, enc, (size_t)h_below(h, esz), (long long)n, 0, 1, "mut", NULL); }
                /* corrupt the length prefix of record j */
                size_t j = (size_t)h_below(h, n), off = 0;
                for (size_t i = 0; i < j; i++) off += 4 + l.len[i];
                uint8_t save[4]; memcpy(save, enc + off, 4);
                static const uint32_t bad[] = { 0xFFFFFFFFu, 0x80000000u, 0x7FFFFFFFu, 0xFFFFFFFCu };
                for (int b = 0; b < 4; b++) { spec_le(bad[b], 4, enc + off); run_pl_dec(h, T_BA, enc, esz, (long long)n, 0, b & 1, "mut", NULL); }
                /* last record longer by one than what is left (exact-size buffer) */
                size_t lo = esz - 4 - l.len[n - 1];
                memcpy(enc + off, save, 4);
                memcpy(save, enc + lo, 4);
                spec_le(l.len[n - 1] + 1, 4, enc + lo); run_pl_dec(h, T_BA, enc, esz, (long long)n, 0, 0, "mut", NULL);
                memcpy(enc + lo, save, 4);
            }
            free(enc); ba_free(&l);
        }
    }
    for (int i = 0; i < (h->thorough ? 1500 : 300); i++) {
        size_t len = (size_t)h_below(h, 30); uint8_t* raw = h_alloc(len);
        for (size_t q = 0; q < len; q++) raw[q] = h_chance(h, 2, 3) ? (uint8_t)h_below(h, 4) : (uint8_t)h_next(h);
        run_pl_dec(h, T_BA, raw, len, (long long)h_below(h, 8) - 1, 0, (int)h_below(h, 2), "raw", NULL);
        free(raw);
    }
}

static void gen_bss(hctx* h) {
    static const int ks[] = { 1, 2, 3, 4, 5, 7, 8, 12, 16 };
    static const size_t big[] = { 95, 96, 97, 127, 128, 129, 255, 256, 257 };
    /* counts around and beyond the tile sizes a cache-blocked transpose would use (512 / 1024 / 2048 / 4096 values) */
    { static const size_t huge[] = { 511, 513, 1023, 1024, 1025, 1500, 2047, 2049, 3000, 4097 };
      static const int hk[] = { 2, 3, 4, 8, 12 };
      for (size_t q = 0; q < sizeof huge / sizeof huge[0]; q++) for (int ki = 0; ki < 5; ki++) {
          if (!h->thorough && ((q + (size_t)ki) % 2)) continue;
          size_t n = huge[q]; int k = hk[ki]; size_t vsz = n * (size_t)k;
          uint8_t* v = h_alloc(vsz); h_fill(h, v, vsz, (int)h_below(h, 5));
          int kind = k == 4 && (q % 2) ? 1 : k == 8 && (q % 2) ? 2 : 0;
          run_bss_enc(h, kind, k, (long long)n, vsz, v, vsz);
          uint8_t* enc = h_alloc(vsz); spec_bss(v, n, k, enc);
          { char* vs = fmt_hex(v, vsz); run_bss_dec(h, kind, k, (long long)n, "spec", enc, vsz, vs); free(vs); }
          free(enc); free(v);
      } }
    for (int kind = 0; kind < 3; kind++) {
        size_t nk = kind == 0 ? sizeof ks / sizeof ks[0] : 1;
        for (size_t ki = 0; ki < nk; ki++) {
            int k = kind == 1 ? 4 : kind == 2 ? 8 : ks[ki];
            size_t total = 71 + (kind || h->thorough ? sizeof big / sizeof big[0] : 0);
            for (size_t q = 0; q < total; q++) {
                size_t n = q < 71 ? q : big[q - 71];
                if (kind == 0 && !h->thorough && n > 24 && (n % 7)) continue;
                size_t vsz = n * (size_t)k;
                uint8_t* v = h_alloc(vsz);
                if (kind == 1) gen_image(h, T_F32, v, n, 0); else if (kind == 2) gen_image(h, T_F64, v, n, 0); else h_fill(h, v, vsz, (int)h_below(h, 5));
                run_bss_enc(h, kind, k, (long long)n, vsz, v, vsz);
                if (h_chance(h, 1, 2)) run_bss_enc(h, kind, k, (long long)n, vsz + 1 + h_below(h, 9), v, vsz);
                if (vsz > 0 && (n < 10 || h_chance(h, 1, 4))) run_bss_enc(h, kind, k, (long long)n, vsz - 1, v, vsz);   /* capacity one short */
                uint8_t* enc = h_alloc(vsz + 8); spec_bss(v, n, k, enc); h_fill(h, enc + vsz, 8, 0);
                char* vs = fmt_hex(v, vsz);
                run_bss_dec(h, kind, k, (long long)n, "spec", enc, vsz, vs);
                if (h_chance(h, 1, 2)) run_bss_dec(h, kind, k, (long long)n, "spec", enc, vsz + 1 + h_below(h, 7), vs);
                free(vs);
                if (vsz > 0 && (n < 10 || h_chance(h, 1, 4))) run_bss_dec(h, kind, k, (long long)n, "mut", enc, vsz - 1, NULL);
                if (n < 10) run_bss_dec(h, kind, k, (long long)n + 1, "mut", enc, vsz, NULL);
                free(enc); free(v);
            }
            /* negative counts: (size_t)count wraps */
            uint8_t raw[64]; h_fill(h, raw, 64, 0);
            run_bss_dec(h, kind, k, -1, "raw", raw, 64, NULL);
            run_bss_dec(h, kind, k, -(1LL << 62), "raw", raw, 16, NULL);
            run_bss_dec(h, kind, k, -(1LL << 62), "raw", raw, 0, NULL);
            run_bss_enc(h, kind, k, -1, 64, raw, 64);
            run_bss_enc(h, kind, k, -(1LL << 62), 8, raw, 8);
            for (int i = 0; i < (h->thorough ? 200 : 40); i++) {
                size_t len = (size_t)h_below(h, 64);
                run_bss_dec(h, kind, k, (long long)h_below(h, 70 / (size_t)k + 3), "raw", raw, len, NULL);
            }
        }
    }
    { uint8_t raw[16]; h_fill(h, raw, 16, 0);
      run_bss_dec(h, 0, 0, 2, "raw", raw, 16, NULL); run_bss_dec(h, 0, -4, 2, "raw", raw, 16, NULL);
      run_bss_enc(h, 0, 0, 2, 16, raw, 16); run_bss_enc(h, 0, -1, 2, 16, raw, 16); }
}

static void emit_stats(hctx* h, const char* comp) {
    static const char* const on[7] = { "pl_enc", "pl_dec", "bss_enc", "bss_dec", "dict_build", "dict_enc", "dict_dec" };
    for (int i = 0; i < 7; i++) if (st_ops[i]) fprintf(h->out, "#stat %s_ops_%s %ld\n", comp, on[i], st_ops[i]);
    fprintf(h->out, "#stat %s_status_ok %ld\n#stat %s_status_error %ld\n", comp, st_ok, comp, st_err);
    fprintf(h->out, "#stat %s_size_0 %ld\n#stat %s_size_1_8 %ld\n#stat %s_size_9_70 %ld\n#stat %s_size_71_up %ld\n",
            comp, st_len[0], comp, st_len[1], comp, st_len[2], comp, st_len[3]);
    if (st_ops[5]) fprintf(h->out, "#stat %s_f1_region_cases %ld\n", comp, st_f1);
    if (st_ops[4]) fprintf(h->out, "#stat %s_max_chain %ld\n#stat %s_max_distinct %ld\n", comp, st_chain_max, comp, st_distinct_max);
}

static void gen_plain(hctx* h) {
    gen_plain_fixed(h); gen_plain_bool(h); gen_plain_ba(h); gen_bss(h);
    emit_stats(h, "plain");
}

/* ------------------------------------------------------------------ dictionary generators */

static balist balist_new(size_t n) {
    balist l; l.n = n; l.data = (uint8_t**)h_alloc(n * sizeof(uint8_t*)); l.len = (size_t*)h_alloc(n * sizeof(size_t));
    return l;
}
static void ba_set(balist* l, size_t i, const uint8_t* p, size_t len) { l->len[i] = len; l->data[i] = h_alloc(len); memcpy(l->data[i], p, len); }

/* history of n values of sz bytes drawn from an alphabet of `alpha` random values (runs favoured) */
static balist gen_history(hctx* h, size_t n, size_t sz, size_t alpha, int runs) {
    uint8_t* pool = h_alloc(alpha * sz);
    for (size_t i = 0; i < alpha; i++) {
        if (sz == 4 && h_chance(h, 1, 2)) { uint32_t x = gen32(h); memcpy(pool + 4 * i, &x, 4); }
        else if (sz == 8 && h_chance(h, 1, 2)) { uint64_t x = gen64(h); memcpy(pool + 8 * i, &x, 8); }
        else h_fill(h, pool + i * sz, sz, 0);
    }
    balist l = balist_new(n); size_t cur = 0;
    for (size_t i = 0; i < n; i++) {
        if (!runs || i == 0 || h_chance(h, 1, 3)) cur = (size_t)h_below(h, alpha);
        ba_set(&l, i, pool + cur * sz, sz);
    }
    free(pool);
    return l;
}

static void gen_dict_build(hctx* h) {
    static const size_t szs[] = { 4, 8, 1, 12 };
    for (size_t si = 0; si < 4; si++)
        for (size_t n = 0; n <= 40; n++) {
            balist l = gen_history(h, n, szs[si], 1 + (size_t)h_below(h, n < 6 ? 3 : 9), (int)h_below(h, 2));
            run_dict_build(h, 0, szs[si], &l); ba_free(&l);
        }
    for (int i = 0; i < (h->thorough ? 60 : 12); i++) {
        size_t sz = szs[h_below(h, 2)];
        balist l = gen_history(h, 100 + (size_t)h_below(h, 300), sz, 20 + (size_t)h_below(h, 80), (int)h_below(h, 2));
        run_dict_build(h, 0, sz, &l); ba_free(&l);
    }
    /* more distinct values than buckets (chains), more values than the initial indices capacity
     * (1024, doubled on demand), dictionary page larger than the initial 4096-byte buffer */
    { balist l = gen_history(h, h->thorough ? 20000 : 3000, 4, h->thorough ? 15000 : 2500, 0); run_dict_build(h, 0, 4, &l); ba_free(&l); }
    { balist l = gen_history(h, 2100, 8, 1500, 1); run_dict_build(h, 0, 8, &l); ba_free(&l); }
    { balist l = gen_history(h, 1024, 4, 3, 1); run_dict_build(h, 0, 4, &l); ba_free(&l); }     /* exactly the capacity */
    { balist l = gen_history(h, 1025, 4, 1025, 0); run_dict_build(h, 0, 4, &l); ba_free(&l); }
    /* many values in ONE bucket: search 4-byte values whose FNV-1a hash falls in the same bucket */
    { uint8_t col[48][4]; size_t nc = 0; uint32_t target = 0;
      for (uint32_t x = (uint32_t)h_next(h); nc < 48; x += 7) {
          uint8_t b[4]; memcpy(b, &x, 4);
          uint32_t bk = dict_hash(b, 4) % 1024;
          if (nc == 0) target = bk;
          if (bk == target) { memcpy(col[nc++], b, 4); }
      }
      balist l = balist_new(200);
      for (size_t i = 0; i < 200; i++) ba_set(&l, i, col[i < 48 ? i : h_below(h, 48)], 4);
      run_dict_build(h, 0, 4, &l); ba_free(&l); }
    /* variable length: empty string, prefixes, equal bytes of different lengths */
    { static const char* const w[] = { "", "a", "ab", "abc", "", "ab", "b", "a", "\0", "\0\0", "", "abc", "abd" };
      static const size_t wl[] = { 0, 1, 2, 3, 0, 2, 1, 1, 1, 2, 0, 3, 3 };
      balist l = balist_new(13); for (size_t i = 0; i < 13; i++) ba_set(&l, i, (const uint8_t*)w[i], wl[i]);
      run_dict_build(h, 1, 0, &l); ba_free(&l); }
    /* values that are prefixes of one another AND fall into the same bucket (the chain walk must
     * compare sizes, not only bytes) */
    for (int rep = 0; rep < 6; rep++) {
        uint8_t base[8]; size_t bl = (size_t)h_below(h, 4); h_fill(h, base, bl, 0);
        uint32_t target = dict_hash(base, bl) % 1024;
        uint8_t ext[8][8]; size_t el[8]; size_t ne = 0;
        for (uint32_t x = 0; x < 200000 && ne < 4; x++) {
            uint8_t c[8]; memcpy(c, base, bl); c[bl] = (uint8_t)x; c[bl + 1] = (uint8_t)(x >> 8); c[bl + 2] = (uint8_t)(x >> 16);
            size_t cl = bl + 1 + (x > 255) + (x > 65535);
            if (dict_hash(c, cl) % 1024 == target) { memcpy(ext[ne], c, cl); el[ne++] = cl; }
        }
        balist l = balist_new(2 * ne + 3);
        ba_set(&l, 0, base, bl);
        for (size_t i = 0; i < ne; i++) ba_set(&l, 1 + i, ext[i], el[i]);
        ba_set(&l, 1 + ne, base, bl);
        for (size_t i = 0; i < ne; i++) ba_set(&l, 2 + ne + i, ext[ne - 1 - i], el[ne - 1 - i]);
        ba_set(&l, 2 + 2 * ne, base, bl);
        run_dict_build(h, 1, 0, &l); ba_free(&l);
    }
    for (size_t n = 0; n <= 40; n++) {
        balist pool = gen_balist(h, 1 + (size_t)h_below(h, 8));
        balist l = balist_new(n);
        for (size_t i = 0; i < n; i++) { size_t q = (size_t)h_below(h, pool.n); ba_set(&l, i, pool.data[q], pool.len[q]); }
        run_dict_build(h, 1, 0, &l); ba_free(&l); ba_free(&pool);
    }
    { balist pool = gen_balist(h, 1400); balist l = balist_new(2000);
      for (size_t i = 0; i < 2000; i++) { size_t q = (size_t)h_below(h, pool.n); ba_set(&l, i, pool.data[q], pool.len[q]); }
      run_dict_build(h, 1, 0, &l); ba_free(&l); ba_free(&pool); }
}

static void gen_dict_enc(hctx* h) {
    for (int kind = 0; kind < 5; kind++) {
        size_t sz = kind == 4 ? 0 : (size_t)dsize(kind);
        for (size_t n = 0; n <= (h->thorough ? 120u : 70u); n++) {
            int reps = n <= 10 ? 3 : 1;
            for (int r = 0; r < reps; r++) {
                if (kind == 4) {
                    balist pool = gen_balist(h, 1 + (size_t)h_below(h, 6)); balist l = balist_new(n); size_t q = 0;
                    for (size_t i = 0; i < n; i++) { if (i == 0 || h_chance(h, 1, 2)) q = (size_t)h_below(h, pool.n); ba_set(&l, i, pool.data[q], pool.len[q]); }
                    run_dict_enc(h, 4, NULL, n, &l); ba_free(&l); ba_free(&pool);
                } else {
                    balist l = gen_history(h, n, sz, 1 + (size_t)h_below(h, n < 8 ? 3 : 12), (int)h_below(h, 2));
                    uint8_t* img = h_alloc(n * sz); for (size_t i = 0; i < n; i++) memcpy(img + i * sz, l.data[i], sz);
                    run_dict_enc(h, kind, img, n, NULL); free(img); ba_free(&l);
                }
            }
        }
        if (kind != 4) {
            size_t n = 1500; balist l = gen_history(h, n, sz, 1100, 0);
            uint8_t* img = h_alloc(n * sz); for (size_t i = 0; i < n; i++) memcpy(img + i * sz, l.data[i], sz);
            run_dict_enc(h, kind, img, n, NULL); free(img); ba_free(&l);
            /* long runs only (every run >= 8: outside the F1 region, RLE runs in the index stream) */
            n = 200; img = h_alloc(n * sz);
            uint8_t a[8], b[8]; h_fill(h, a, 8, 0); h_fill(h, b, 8, 0); b[0] = (uint8_t)(a[0] + 1);
            for (size_t i = 0; i < n; i++) memcpy(img + i * sz, ((i / 25) & 1) ? b : a, sz);
            run_dict_enc(h, kind, img, n, NULL); free(img);
        }
    }
}

static int bits_of(uint32_t x) { int w = 0; while (x) { w++; x >>= 1; } return w; }

/* one decoder case: dictionary of dcnt random entries, the given index values at width w */
static void dict_dec_case(hctx* h, int kind, size_t dcnt, int w, const uint32_t* idx, size_t n, int mode,
                          long long outn, long long dc_decl, long dshort, const char* note) {
    size_t sz = (size_t)dsize(kind);
    uint8_t* dict = h_alloc(dcnt * sz); gen_image(h, dptype(kind), dict, dcnt, 0);
    uint8_t* ind = h_alloc(8 * n + 64); uint32_t* held = (uint32_t*)h_alloc((n + 16) * 4); size_t nheld = 0;
    ind[0] = (uint8_t)w;
    size_t il = 1 + hyb_encode(h, w, idx, n, mode, ind + 1, held, &nheld);
    size_t dsz = dcnt * sz;
    if (dshort > 0 && (size_t)dshort <= dsz) dsz -= (size_t)dshort;
    run_dict_dec(h, kind, dict, dsz, dc_decl, ind, il, outn, held, nheld, note);
    free(dict); free(ind); free(held);
}

static void gen_dict_dec(hctx* h) {
    for (int kind = 0; kind < 4; kind++) {
        /* valid streams */
        for (int i = 0; i < (h->thorough ? 900 : 160); i++) {
            size_t dcnt = 1 + (size_t)h_below(h, h_chance(h, 1, 10) ? 300 : 40);
            int wmin = bits_of((uint32_t)(dcnt - 1)); if (wmin < 1) wmin = 1;
            int w = h_chance(h, 2, 3) ? wmin : wmin + (int)h_below(h, (uint64_t)(33 - wmin));
            size_t n = (size_t)h_below(h, 71);
            uint32_t* idx = (uint32_t*)h_alloc(n * 4); uint32_t cur = 0;
            for (size_t q = 0; q < n; q++) { if (q == 0 || h_chance(h, 1, 2)) cur = (uint32_t)h_below(h, dcnt); idx[q] = cur; }
            dict_dec_case(h, kind, dcnt, w, idx, n, (int)h_below(h, 3), (long long)n, (long long)dcnt, 0, "valid");
            free(idx);
        }
        /* width 0 (single-entry dictionaries written by other writers) */
        { uint32_t z[20] = {0};
          dict_dec_case(h, kind, 1, 0, z, 20, 1, 20, 1, 0, "width0_rle");
          dict_dec_case(h, kind, 1, 0, z, 16, 0, 16, 1, 0, "width0_bp"); }
        /* one index out of range, at every width that can hold it (indices < 2^31 here) */
        for (int w = 1; w <= 32; w++) {
            for (int rep = 0; rep < (h->thorough ? 6 : 2); rep++) {
                uint64_t lim = w >= 31 ? (1ull << 31) : (1ull << w);        /* values representable and < 2^31 */
                size_t dcnt = 1 + (size_t)h_below(h, lim - 1 < 60 ? lim - 1 : 60);
                if (dcnt >= lim) continue;
                size_t n = 1 + (size_t)h_below(h, 30);
                uint32_t* idx = (uint32_t*)h_alloc(n * 4);
                for (size_t q = 0; q < n; q++) idx[q] = (uint32_t)h_below(h, dcnt);
                size_t pos = (size_t)h_below(h, n);
                int which = (int)h_below(h, 3);
                idx[pos] = which == 0 ? (uint32_t)dcnt : which == 1 ? (uint32_t)(lim - 1) : (uint32_t)(dcnt + h_below(h, lim - dcnt));
                dict_dec_case(h, kind, dcnt, w, idx, n, (int)h_below(h, 3), (long long)n, (long long)dcnt, 0, "index_out_of_range");
                idx[pos] = (uint32_t)(dcnt - 1);                                  /* boundary: last valid */
                dict_dec_case(h, kind, dcnt, w, idx, n, (int)h_below(h, 3), (long long)n, (long long)dcnt, 0, "index_last_valid");
                free(idx);
            }
        }
        /* declared counts / sizes */
        { uint32_t idx[12]; for (int q = 0; q < 12; q++) idx[q] = (uint32_t)(q % 3);
          dict_dec_case(h, kind, 3, 2, idx, 12, 0, 12, 3, 1, "dict_one_byte_short");
          dict_dec_case(h, kind, 3, 2, idx, 12, 0, 12, 4, 0, "dict_count_too_large");
          dict_dec_case(h, kind, 3, 2, idx, 12, 2, 12, 0, 0, "dict_count_zero");
          /* declared counts whose byte size wraps in 32 bits (count * value size = 2^32 * k + small): the 3-entry dictionary
           * buffer must still be refused, never indexed */
          { static const long long wraps[] = { 0x40000000LL, 0x40000001LL, 0x40000003LL, 0x20000000LL, 0x20000001LL, 0x60000000LL,
                                                0x60000001LL, 0x7FFFFFFFLL, 0x3FFFFFFFLL, 0x1FFFFFFFLL, 0x10000000LL };
            uint32_t idx3[12]; for (int q = 0; q < 12; q++) idx3[q] = (uint32_t)(q % 4);      /* index 3: behind the 3 entries that exist */
            for (unsigned q = 0; q < sizeof wraps / sizeof wraps[0]; q++) {
                dict_dec_case(h, kind, 3, 2, idx, 12, (int)(q % 3), 12, wraps[q], 0, "dict_count_wraps");
                dict_dec_case(h, kind, 3, 2, idx3, 12, (int)((q + 1) % 3), 12, wraps[q], 0, "dict_count_wraps_index_behind");
            } }
          dict_dec_case(h, kind, 3, 2, idx, 12, 2, 12, -1, 0, "dict_count_negative");
          dict_dec_case(h, kind, 3, 2, idx, 12, 1, 0, 3, 0, "output_count_zero");
          dict_dec_case(h, kind, 3, 2, idx, 12, 1, -5, 3, 0, "output_count_negative");
          dict_dec_case(h, kind, 3, 2, idx, 12, 0, 17, 3, 0, "stream_shorter_than_output");      /* holds 16 */
          dict_dec_case(h, kind, 3, 2, idx, 12, 1, 13, 3, 0, "stream_shorter_than_output");
          dict_dec_case(h, kind, 3, 2, idx, 12, 0, 5, 3, 0, "output_shorter_than_stream");
          dict_dec_case(h, kind, 3, 2, idx, 0, 0, 4, 3, 0, "width_byte_only");
          dict_dec_case(h, kind, 2, 2, idx, 12, 0, 12, 2, 0, "index_out_of_range");
          /* indices_size == 0 */
          size_t sz = (size_t)dsize(kind); uint8_t* dict = h_alloc(3 * sz); gen_image(h, dptype(kind), dict, 3, 0);
          run_dict_dec(h, kind, dict, 3 * sz, 3, dict, 0, 4, idx, 0, "no_width_byte");
          free(dict); }
    }
}

static void gen_dict(hctx* h) {
    gen_dict_build(h); gen_dict_enc(h); gen_dict_dec(h);
    emit_stats(h, "dict");
}

/* F7: indices >= 2^31 need width 32.  On the pinned code the first such case dies (the signed
 * comparison lets the index through and dict_data + index * size is far outside the heap). */
static void gen_dictidx(hctx* h) {
    { uint32_t ok[9] = { 0, 1, 0, 1, 1, 0, 0, 1, 1 };
      dict_dec_case(h, 0, 2, 32, ok, 9, 0, 9, 2, 0, "valid_width32"); }
    static const uint32_t bad[] = { 0xFFFFFFFFu, 0x80000000u, 0xFFFFFFFEu, 0x80000001u, 0xC0000000u };
    for (int kind = 0; kind < 4; kind++)
        for (size_t b = 0; b < sizeof bad / 4; b++)
            for (int mode = 0; mode < 2; mode++) {
                size_t dcnt = 1 + (size_t)h_below(h, 3);
                size_t n = 1 + (size_t)h_below(h, 9);
                uint32_t* idx = (uint32_t*)h_alloc(n * 4);
                for (size_t q = 0; q < n; q++) idx[q] = (uint32_t)h_below(h, dcnt);
                idx[h_below(h, n)] = bad[b];
                dict_dec_case(h, kind, dcnt, 32, idx, n, mode, (long long)n, (long long)dcnt, 0, "index_ge_2p31");
                free(idx);
            }
    for (int i = 0; i < (h->thorough ? 300 : 40); i++) {
        int kind = (int)h_below(h, 4); size_t dcnt = 1 + (size_t)h_below(h, 20), n = 1 + (size_t)h_below(h, 40);
        uint32_t* idx = (uint32_t*)h_alloc(n * 4);
        for (size_t q = 0; q < n; q++) idx[q] = (uint32_t)h_below(h, dcnt);
        idx[h_below(h, n)] = 0x80000000u | (uint32_t)h_next(h);
        dict_dec_case(h, kind, dcnt, 32, idx, n, (int)h_below(h, 3), (long long)n, (long long)dcnt, 0, "index_ge_2p31");
        free(idx);
    }
    emit_stats(h, "dictidx");
}

/* ------------------------------------------------------------------ replay */

static int replay_plain(hctx* h, const h_line* l) {
    const char* op = l->op;
    if (!strcmp(op, "pl_enc")) {
        int t = tparse(h_in(l, "t")); if (t < 0) return 0;
        if (t == T_BA) { balist bl = ba_parse(h_in(l, "vals")); run_pl_enc(h, T_BA, NULL, bl.n, 0, &bl); ba_free(&bl); }
        else if (t == T_BOOL) { size_t n; uint8_t* v = h_unhex(h_in(l, "vals"), &n); run_pl_enc(h, T_BOOL, v, n, 0, NULL); free(v); }
        else if (t == T_FLBA) { size_t n; uint8_t* v = h_unhex(h_in(l, "vals"), &n); run_pl_enc(h, T_FLBA, v, (size_t)h_ll(h_in(l, "count")), (int)h_ll(h_in(l, "k")), NULL); free(v); }
        else { size_t n; uint8_t* img = parse_typed((ptype)t, h_in(l, "vals"), &n); run_pl_enc(h, (ptype)t, img, n, 0, NULL); free(img); }
        return 1;
    }
    if (!strcmp(op, "pl_dec")) {
        int t = tparse(h_in(l, "t")); if (t < 0) return 0;
        size_t n; uint8_t* in = h_unhex(h_in(l, "in"), &n);
        run_pl_dec(h, (ptype)t, in, n, h_ll(h_in(l, "count")), (int)h_ll(h_in(l, "k")), (int)h_ll(h_in(l, "via")),
                   h_in(l, "src") ? h_in(l, "src") : "raw", h_in(l, "vals"));
        free(in); return 1;
    }
    if (!strcmp(op, "bss_enc") || !strcmp(op, "bss_dec")) {
        const char* t = h_in(l, "t"); int kind = !t ? 0 : !strcmp(t, "f32") ? 1 : !strcmp(t, "f64") ? 2 : 0;
        size_t n;
        if (!strcmp(op, "bss_enc")) { uint8_t* v = h_unhex(h_in(l, "vals"), &n);
            run_bss_enc(h, kind, (int)h_ll(h_in(l, "k")), h_ll(h_in(l, "count")), (size_t)h_ll(h_in(l, "cap")), v, n); free(v); }
        else { uint8_t* v = h_unhex(h_in(l, "in"), &n);
            run_bss_dec(h, kind, (int)h_ll(h_in(l, "k")), h_ll(h_in(l, "count")), h_in(l, "src") ? h_in(l, "src") : "raw", v, n, h_in(l, "vals")); free(v); }
        return 1;
    }
    return 0;
}

static int dparse(const char* s) { for (int i = 0; i < 5; i++) if (s && !strcmp(s, dkind[i])) return i; return -1; }

static int replay_dict(hctx* h, const h_line* l) {
    const char* op = l->op;
    if (!strcmp(op, "dict_build")) {
        balist bl = ba_parse(h_in(l, "vals"));
        run_dict_build(h, (int)h_ll(h_in(l, "var")), (size_t)h_ll(h_in(l, "sz")), &bl); ba_free(&bl); return 1;
    }
    if (!strcmp(op, "dict_enc")) {
        int kind = dparse(h_in(l, "t")); if (kind < 0) return 0;
        if (kind == 4) { balist bl = ba_parse(h_in(l, "vals")); run_dict_enc(h, 4, NULL, bl.n, &bl); ba_free(&bl); }
        else { size_t n; uint8_t* img = parse_typed(dptype(kind), h_in(l, "vals"), &n); run_dict_enc(h, kind, img, n, NULL); free(img); }
        return 1;
    }
    if (!strcmp(op, "dict_dec")) {
        int kind = dparse(h_in(l, "t")); if (kind < 0 || kind > 3) return 0;
        size_t dsz, isz, nh; uint8_t* d = h_unhex(h_in(l, "dict"), &dsz); uint8_t* ii = h_unhex(h_in(l, "ind"), &isz);
        uint64_t* hv = parse_u64s(h_in(l, "idx"), &nh); uint32_t* held = (uint32_t*)h_alloc(nh * 4);
        for (size_t i = 0; i < nh; i++) held[i] = (uint32_t)hv[i];
        run_dict_dec(h, kind, d, dsz, h_ll(h_in(l, "dc")), ii, isz, h_ll(h_in(l, "n")), held, nh, h_in(l, "note") ? h_in(l, "note") : "replay");
        free(d); free(ii); free(hv); free(held); return 1;
    }
    return 0;
}

const h_component comp_plain = { "plain", gen_plain, replay_plain };
const h_component comp_dict = { "dict", gen_dict, replay_dict };
const h_component comp_dictidx = { "dictidx", gen_dictidx, NULL };
