/* C07: parallel reading of DICTIONARY-ENCODED files.  carquet's own writer never emits dictionary pages, so the
 * files come from the Lean side (`driver --gen pardict`: Spec.File.writeFull; 6..10 INT32/INT64/BYTE_ARRAY columns,
 * 8..16 row groups, a dictionary page + 1..3 data pages per chunk, UNCOMPRESSED / SNAPPY / LZ4_RAW, some with PLAIN
 * fallback pages and OPTIONAL columns).  The component reads its input lines from h->in_path:
 *
 *   pardict id desc cols=<ptype.maxdef,...> nrg rows codec dictpages datapages flen file=x<bytes> expect=<d0,...> selfcheck
 *
 * and turns every file into a series of executed lines (the file travels with every line, so each line replays alone):
 *
 *   pardict_read  <file keys> mode nt bs sched reps | st nb rows dg cdg ref_st ref_nb ref_dg nrep nfail badrep
 *                                                     nonatomic badsec ilv nthr tr p_same_as_single p_expected
 *   pardict_indep <file keys> mode n nt bs sched reps | sts dgs cdg ref_st ref_dg nrep nfail badrep nonatomic badsec
 *                                                     ilv tr p_same_as_alone p_expected
 *
 * mode 0 fread, 1 mmap, 2 buffer.  A line runs its configuration `reps` times, each time under another schedule
 * (seed derived from `sched` and the repetition number; about one in five repetitions runs unperturbed), and stops at
 * the first repetition that differs from the single-threaded unperturbed reading (status, batch count, digest), from
 * the expected table (`expect`: per-column digests computed by the Lean side from the TABLE), or whose trace shows a
 * seek+read pair on a FILE* that is not one critical section; `tr` is the trace of that repetition (of the last one
 * if all are good).
 *
 * Schedule perturbation: the CARQUET_VERIF I/O events (yield points before every fseek/fread, as in ops_par.c) and,
 * new here, the BOUNDARIES OF THE CRITICAL SECTIONS: this file interposes libgomp's GOMP_critical_name_start/_end
 * (the entry points gcc emits for `#pragma omp critical(name)`), forwards to the real ones, records "entered" /
 * "about to leave" events while the lock is held (sites 5/6) and offers a schedule point just before entering and
 * just after leaving (sites 7/8: yield / sleep without holding the lock).  For code whose sections are atomic this
 * changes nothing; a seek and a read that sit in two separate sections get other workers' sections in between.
 * The recorded section boundaries let the driver check the model's footprint (`Action.crit [seek, read]`) directly.
 * The interposer is transparent (no recording, no yields) unless a pardict line is running. */
#define _GNU_SOURCE
#include "common.h"
#include "ops_par_shared.h"
#include <carquet/carquet.h>
#include <dlfcn.h>
#include <sched.h>
#include <unistd.h>
#include <sys/stat.h>

/* ------------------------------------------------------------------ critical-section boundaries */

static void (*real_crit_start)(void**);
static void (*real_crit_end)(void**);
static int g_crit_hook;     /* record section boundaries and offer schedule points at them */

__attribute__((constructor)) static void crit_resolve(void) {
    real_crit_start = (void (*)(void**))dlsym(RTLD_NEXT, "GOMP_critical_name_start");
    real_crit_end = (void (*)(void**))dlsym(RTLD_NEXT, "GOMP_critical_name_end");
}
/* if libgomp's entry points cannot be found behind ours (static libgomp), one process-wide mutex for every name is
 * a correct (coarser) implementation of `omp critical(name)`; carquet has a single named section */
static pthread_mutex_t g_crit_fallback = PTHREAD_MUTEX_INITIALIZER;
void GOMP_critical_name_start(void** pptr) {
    if (g_crit_hook) carquet_verif_event(7, pptr, 0, 0);
    if (real_crit_start && real_crit_end) real_crit_start(pptr); else pthread_mutex_lock(&g_crit_fallback);
    if (g_crit_hook) carquet_verif_event(5, pptr, 0, 0);
}
void GOMP_critical_name_end(void** pptr) {
    if (g_crit_hook) carquet_verif_event(6, pptr, 0, 0);
    if (real_crit_start && real_crit_end) real_crit_end(pptr); else pthread_mutex_unlock(&g_crit_fallback);
    if (g_crit_hook) carquet_verif_event(8, pptr, 0, 0);
}

/* ------------------------------------------------------------------ the file of a line */

#define PD_MAXCOLS 16
typedef struct { int ptype, maxdef; } pd_col;
typedef struct {
    const h_line* l;
    pd_col cols[PD_MAXCOLS]; int ncols; int nrg; long rows; int codec;
    uint8_t* fb; size_t fn;
    uint64_t expect[PD_MAXCOLS]; int nexpect;
    char path[300];
} pd_file;

static int pd_load(pd_file* F, const h_line* l) {
    memset(F, 0, sizeof *F); F->l = l;
    const char* cs = h_in(l, "cols");
    for (const char* c = cs; c && *c && F->ncols < PD_MAXCOLS; ) {
        pd_col* k = &F->cols[F->ncols++];
        k->ptype = (int)strtol(c, (char**)&c, 10); if (*c == '.') c++;
        k->maxdef = (int)strtol(c, (char**)&c, 10); if (*c == ',') c++;
    }
    F->nrg = (int)h_ll(h_in(l, "nrg")); F->rows = (long)h_ll(h_in(l, "rows")); F->codec = (int)h_ll(h_in(l, "codec"));
    const char* ex = h_in(l, "expect");
    for (const char* c = ex; c && *c && *c != '-' && F->nexpect < PD_MAXCOLS; ) {
        F->expect[F->nexpect++] = strtoull(c, (char**)&c, 10); if (*c == ',') c++;
    }
    F->fb = h_unhex(h_in(l, "file"), &F->fn);
    snprintf(F->path, sizeof F->path, "%s/pardict_%ld_%lld.parquet", scratch_dir(), (long)getpid(), h_ll(h_in(l, "id")));
    FILE* f = fopen(F->path, "wb");
    if (!f || fwrite(F->fb, 1, F->fn, f) != F->fn) { if (f) fclose(f); return 1; }
    fclose(f);
    return 0;
}
static void pd_drop(pd_file* F) { if (F->path[0]) unlink(F->path); free(F->fb); F->fb = NULL; F->path[0] = 0; }

static void pd_print_inputs(hctx* h, const char* op, const h_line* l) {
    static const char* const keys[] = { "id", "desc", "cols", "nrg", "rows", "codec", "flen", "file", "expect" };
    fputs(op, h->out);
    for (size_t i = 0; i < sizeof keys / sizeof keys[0]; i++) { const char* v = h_in(l, keys[i]); if (v) fprintf(h->out, " %s=%s", keys[i], v); }
}

/* ------------------------------------------------------------------ read everything, digest */

typedef struct { int st; long nb, rows; uint64_t dg; uint64_t col[PD_MAXCOLS]; } pd_result;

static int pd_vsize(int ptype) { return ptype == 1 ? 4 : ptype == 2 ? 8 : (int)sizeof(carquet_byte_array_t); }

/* st: final status of carquet_batch_reader_next (CARQUET_ERROR_END_OF_DATA when all is well), -1 open failed, -2 batch
 * reader create failed.  col[c]: digest of the rows of column c (the definition `expect` uses); dg: everything,
 * batch boundaries and statuses included */
static void pd_read_all(const pd_file* F, int mode, int nt, long bs, pd_result* r) {
    memset(r, 0, sizeof *r); r->dg = FNV0;
    for (int c = 0; c < PD_MAXCOLS; c++) r->col[c] = FNV0;
    carquet_error_t err = CARQUET_ERROR_INIT;
    carquet_reader_options_t ro; carquet_reader_options_init(&ro);
    ro.use_mmap = (mode == 1); ro.verify_checksums = true;
    carquet_reader_t* rd = mode == 2 ? carquet_reader_open_buffer(F->fb, F->fn, &ro, &err) : carquet_reader_open(F->path, &ro, &err);
    if (!rd) { r->st = -1; return; }
    carquet_batch_reader_config_t cfg; carquet_batch_reader_config_init(&cfg);
    cfg.batch_size = bs; cfg.num_threads = nt; cfg.use_mmap = (mode == 1);
    carquet_batch_reader_t* br = carquet_batch_reader_create(rd, &cfg, &err);
    if (!br) { carquet_reader_close(rd); r->st = -2; return; }
    for (;;) {
        carquet_row_batch_t* batch = NULL;
        carquet_status_t st = carquet_batch_reader_next(br, &batch);
        r->dg = fnv_u64(r->dg, (uint64_t)(int64_t)st);
        if (st != CARQUET_OK || !batch) { r->st = (int)st; break; }
        long nr = (long)carquet_row_batch_num_rows(batch);
        int nc = carquet_row_batch_num_columns(batch);
        r->nb++; r->rows += nr;
        r->dg = fnv_u64(r->dg, (uint64_t)nr); r->dg = fnv_u64(r->dg, (uint64_t)nc);
        for (int c = 0; c < nc && c < F->ncols; c++) {
            const void* data = NULL; const uint8_t* bm = NULL; int64_t nv = 0;
            if (carquet_row_batch_column(batch, c, &data, &bm, &nv) != CARQUET_OK) { r->dg = fnv_u64(r->dg, 0xDEAD); continue; }
            r->dg = fnv_u64(r->dg, (uint64_t)nv);
            int vs = pd_vsize(F->cols[c].ptype);
            int64_t j = 0;                              /* values are dense: j counts the non-null ones */
            for (int64_t i = 0; i < nv; i++) {
                int isnull = F->cols[c].maxdef > 0 && bm && ((bm[i / 8] >> (i % 8)) & 1);
                if (F->cols[c].maxdef == 0 && bm && ((bm[i / 8] >> (i % 8)) & 1)) r->dg = fnv_u64(r->dg, 0xBAD0);   /* REQUIRED column marked null */
                uint8_t tag = isnull ? 0 : 1;
                r->col[c] = fnv(r->col[c], &tag, 1); r->dg = fnv(r->dg, &tag, 1);
                if (isnull || !data) continue;
                if (F->cols[c].ptype == 6) {
                    const carquet_byte_array_t* ba = (const carquet_byte_array_t*)data;
                    uint32_t len = (uint32_t)ba[j].length;
                    r->col[c] = fnv(r->col[c], (const uint8_t*)&len, 4); r->dg = fnv(r->dg, (const uint8_t*)&len, 4);
                    if (ba[j].length > 0 && ba[j].length < (1 << 24) && ba[j].data) {
                        r->col[c] = fnv(r->col[c], ba[j].data, (size_t)ba[j].length); r->dg = fnv(r->dg, ba[j].data, (size_t)ba[j].length);
                    }
                } else {
                    const uint8_t* p = (const uint8_t*)data + (size_t)j * (size_t)vs;
                    r->col[c] = fnv(r->col[c], p, (size_t)vs); r->dg = fnv(r->dg, p, (size_t)vs);
                }
                j++;
            }
        }
        carquet_row_batch_free(batch);
    }
    carquet_batch_reader_free(br);
    carquet_reader_close(rd);
}

static int pd_expected(const pd_file* F, const pd_result* r) {
    if (F->nexpect != F->ncols || r->rows != F->rows) return 0;
    for (int c = 0; c < F->ncols; c++) if (r->col[c] != F->expect[c]) return 0;
    return 1;
}

/* reference = single-threaded, no perturbation, no recording; one per (mode, bs) of the current file */
static struct { int mode; long bs; pd_result r; } g_pref[16];
static int g_npref;
static const pd_result* pd_reference(const pd_file* F, int mode, long bs) {
    for (int i = 0; i < g_npref; i++) if (g_pref[i].mode == mode && g_pref[i].bs == bs) return &g_pref[i].r;
    if (g_npref == 16) g_npref = 0;
    rec_end(); g_crit_hook = 0;
    pd_read_all(F, mode, 1, bs, &g_pref[g_npref].r);
    g_pref[g_npref].mode = mode; g_pref[g_npref].bs = bs;
    return &g_pref[g_npref++].r;
}

/* ------------------------------------------------------------------ trace analysis (informational + choice of `tr`) */

#define PD_SEEN_CAP (1u << 16)
static uint64_t g_seen[PD_SEEN_CAP]; static long g_nseen;
static long st_reads, st_reads_multi, st_events, st_sections, st_dictpages, st_files, st_reps_perturbed, st_threads_max;

static int seen_add(uint64_t k) {
    if (k == 0) k = 1;
    for (uint32_t i = (uint32_t)(k & (PD_SEEN_CAP - 1)), n = 0; n < PD_SEEN_CAP; i = (i + 1) & (PD_SEEN_CAP - 1), n++) {
        if (g_seen[i] == k) return 0;
        if (g_seen[i] == 0) { if (g_nseen < (long)PD_SEEN_CAP / 2) { g_seen[i] = k; g_nseen++; return 1; } return 0; }
    }
    return 0;
}

/* interleaving signature of the recorded trace = the order in which the threads (renumbered by first appearance)
 * performed their seeks and reads; nonatomic = stream events that are not [seek by t; read by t] pairs;
 * badsec = critical sections that do not hold exactly one seek and one read (or stream I/O outside any section) */
static void pd_analyse(int fread_mode, uint64_t* sig, long* nonatomic, long* badsec, long* nsec) {
    long n = g_nev < PAR_EV_CAP ? g_nev : PAR_EV_CAP;
    uint64_t s = FNV0; *nonatomic = 0; *badsec = 0; *nsec = 0;
    int map[256]; int nmap = 0;
    const void* objs[32]; int pend_thread[32]; int nobj = 0;       /* per stream: thread of a seek waiting for its read */
    int depth[256]; int inio[256];                                 /* per (renumbered) thread: inside a section / I/O seen in it */
    memset(depth, 0, sizeof depth); memset(inio, 0, sizeof inio);
    for (long i = 0; i < n; i++) {
        int t = -1;
        for (int k = 0; k < nmap; k++) if (map[k] == g_ev[i].thread) t = k;
        if (t < 0) { if (nmap < 256) { map[nmap] = g_ev[i].thread; t = nmap++; } else t = 255; }
        int site = g_ev[i].site;
        if (site == 5) { depth[t] = 1; inio[t] = 0; (*nsec)++; }
        else if (site == 6) { if (inio[t] != 2 && fread_mode) (*badsec)++; depth[t] = 0; }
        else if (site == 1 || site == 2) {
            s = fnv_u64(s, (uint64_t)t * 4 + (uint64_t)site);
            if (!depth[t]) (*badsec)++;
            if ((site == 1 && inio[t] != 0) || (site == 2 && inio[t] != 1)) (*badsec)++;
            inio[t]++;
            int o = -1;
            for (int k = 0; k < nobj; k++) if (objs[k] == g_ev[i].obj) o = k;
            if (o < 0 && nobj < 32) { objs[nobj] = g_ev[i].obj; pend_thread[nobj] = -1; o = nobj++; }
            if (o >= 0) {
                if (site == 1) { if (pend_thread[o] >= 0) (*nonatomic)++; pend_thread[o] = t; }
                else { if (pend_thread[o] != t) (*nonatomic)++; pend_thread[o] = -1; }
            }
        }
    }
    *sig = s;
}

/* ------------------------------------------------------------------ ops */

/* A line keeps going after a repetition whose trace breaks the footprint (so that a repetition on which the PROPERTY
 * fails can still be found) but shows that trace if no later repetition fails: snapshot of the recorder. */
static par_ev* g_snap; static long g_nsnap; static int g_have_snap;
static void snap_take(void) {
    long n = g_nev < PAR_EV_CAP ? g_nev : PAR_EV_CAP;
    if (!g_snap) g_snap = (par_ev*)malloc(sizeof(par_ev) * PAR_EV_CAP);
    memcpy(g_snap, g_ev, sizeof(par_ev) * (size_t)n); g_nsnap = n; g_have_snap = 1;
}
static void snap_restore(void) {
    if (!g_have_snap) return;
    memcpy(g_ev, g_snap, sizeof(par_ev) * (size_t)g_nsnap); g_nev = g_nsnap;
}

typedef struct { const pd_file* F; int mode, nt; long bs; pd_result r; pthread_barrier_t* bar; } pd_arg;
static void* pd_main(void* p) {
    pd_arg* a = (pd_arg*)p;
    pthread_barrier_wait(a->bar);
    pd_read_all(a->F, a->mode, a->nt, a->bs, &a->r);
    return NULL;
}

static uint64_t rep_seed(uint64_t sched, int rep) {
    if (sched == 0) return 0;
    uint64_t s = mix64(sched * 1000003ull + (uint64_t)rep);
    if (s % 5 == 0) return 0;            /* natural schedule: no injected yields */
    return s | 1;
}

/* n readers (n = 1: the batch reader alone on its pool thread) run once under schedule seed `seed` */
static void pd_run(const pd_file* F, int mode, int n, int nt, long bs, uint64_t seed, pd_result* out) {
    pd_arg args[PAR_MAXN]; void* ap[PAR_MAXN]; pthread_barrier_t bar;
    if (n > PAR_MAXN) n = PAR_MAXN;
    pthread_barrier_init(&bar, NULL, (unsigned)n);
    for (int i = 0; i < n; i++) { args[i].F = F; args[i].mode = mode; args[i].nt = nt; args[i].bs = bs; args[i].bar = &bar; ap[i] = &args[i]; }
    /* VERIF_PARDICT_NOCRIT=1 (experiments only): no schedule points at the section boundaries, I/O yield points only */
    static int nocrit = -1; if (nocrit < 0) { const char* e = getenv("VERIF_PARDICT_NOCRIT"); nocrit = e && *e == '1'; }
    g_crit_sched = seed != 0 && !nocrit; g_crit_hook = 1;
    rec_begin(1, seed != 0, seed);
    if (n == 1) {
        int slot = nt <= 1 ? 0 : nt == 2 ? 1 : nt <= 4 ? 2 : nt <= 8 ? 3 : 4;
        pool_run(&g_rpool[slot], 1, pd_main, ap);
    } else pool_run(g_ipool[nt > 1], n, pd_main, ap);
    rec_end(); g_crit_hook = 0; g_crit_sched = 0;
    for (int i = 0; i < n; i++) out[i] = args[i].r;
    pthread_barrier_destroy(&bar);
}

static void pd_print_cdg(hctx* h, const pd_file* F, const pd_result* r) {
    fprintf(h->out, " crows=%ld cdg=", r->rows);
    for (int c = 0; c < F->ncols; c++) fprintf(h->out, "%s%llu", c ? "," : "", (unsigned long long)r->col[c]);
}

static void do_pd_read(hctx* h, const pd_file* F, int mode, int nt, long bs, uint64_t sched, int reps) {
    pd_print_inputs(h, "pardict_read", F->l);
    fprintf(h->out, " mode=%d nt=%d bs=%ld sched=%llu reps=%d", mode, nt, bs, (unsigned long long)sched, reps);
    h_call(h);
    const pd_result* ref = pd_reference(F, mode, bs);
    pd_result r, rkeep; memset(&r, 0, sizeof r); memset(&rkeep, 0, sizeof rkeep);
    int nrep = 0, nfail = 0, badrep = -1, same = 1, expd = 1, nthr = 0; long nonat = 0, badsec = 0, ilv = 0;
    g_have_snap = 0;
    for (int rep = 0; rep < reps; rep++) {
        uint64_t seed = rep_seed(sched, rep);
        pd_run(F, mode, 1, nt, bs, seed, &r);
        nrep++; st_reads++; if (seed) st_reps_perturbed++;
        uint64_t sig; long na, bsx, nsec; pd_analyse(mode == 0, &sig, &na, &bsx, &nsec);
        st_events += g_nev; st_sections += nsec;
        nthr = trace_threads(); if (nthr > 1) st_reads_multi++; if (nthr > st_threads_max) st_threads_max = nthr;
        if (mode == 0 && seen_add(fnv_u64(sig, (uint64_t)h_ll(h_in(F->l, "id"))))) ilv++;
        int s1 = r.st == ref->st && r.nb == ref->nb && r.rows == ref->rows && r.dg == ref->dg;
        int e1 = pd_expected(F, &r);
        if (!s1 || !e1) { nfail++; badrep = rep; same = s1; expd = e1; nonat = na; badsec = bsx; g_have_snap = 0; break; }
        if ((na || bsx) && !g_have_snap) { snap_take(); badrep = rep; nonat = na; badsec = bsx; rkeep = r; }
    }
    if (g_have_snap) { snap_restore(); r = rkeep; nthr = trace_threads(); }
    fprintf(h->out, " | st=%d nb=%ld rows=%ld dg=%llu", r.st, r.nb, r.rows, (unsigned long long)r.dg);
    pd_print_cdg(h, F, &r);
    fprintf(h->out, " ref_st=%d ref_nb=%ld ref_dg=%llu nrep=%d nfail=%d badrep=%d nonatomic=%ld badsec=%ld ilv=%ld nthr=%d",
            ref->st, ref->nb, (unsigned long long)ref->dg, nrep, nfail, badrep, nonat, badsec, ilv, nthr);
    print_trace(h->out, "tr");
    fprintf(h->out, " p_same_as_single=%d p_expected=%d\n", same, expd);
    g_have_snap = 0;
    h->n_lines++;
}

static void do_pd_indep(hctx* h, const pd_file* F, int mode, int n, int nt, long bs, uint64_t sched, int reps) {
    pd_print_inputs(h, "pardict_indep", F->l);
    fprintf(h->out, " mode=%d n=%d nt=%d bs=%ld sched=%llu reps=%d", mode, n, nt, bs, (unsigned long long)sched, reps);
    h_call(h);
    if (n > PAR_MAXN) n = PAR_MAXN;
    const pd_result* ref = pd_reference(F, mode, bs);
    pd_result rs[PAR_MAXN], rkeep[PAR_MAXN]; memset(rs, 0, sizeof rs); memset(rkeep, 0, sizeof rkeep);
    int nrep = 0, nfail = 0, badrep = -1, same = 1, expd = 1; long nonat = 0, badsec = 0, ilv = 0;
    g_have_snap = 0;
    for (int rep = 0; rep < reps; rep++) {
        uint64_t seed = rep_seed(sched, rep);
        pd_run(F, mode, n, nt, bs, seed, rs);
        nrep++; st_reads += n; st_reads_multi++; if (seed) st_reps_perturbed++;
        uint64_t sig; long na, bsx, nsec; pd_analyse(mode == 0, &sig, &na, &bsx, &nsec);
        st_events += g_nev; st_sections += nsec;
        if (mode == 0 && seen_add(fnv_u64(sig, 0x1D + (uint64_t)h_ll(h_in(F->l, "id"))))) ilv++;
        int s1 = 1, e1 = 1;
        for (int i = 0; i < n; i++) {
            if (rs[i].st != ref->st || rs[i].nb != ref->nb || rs[i].dg != ref->dg) s1 = 0;
            if (!pd_expected(F, &rs[i])) e1 = 0;
        }
        /* independent handles have their own FILE*: `nonatomic` is per stream, so it applies; with nt = 1 the sections
         * of one stream all belong to one thread */
        if (!s1 || !e1) { nfail++; badrep = rep; same = s1; expd = e1; nonat = na; badsec = bsx; g_have_snap = 0; break; }
        if ((na || bsx) && !g_have_snap) { snap_take(); badrep = rep; nonat = na; badsec = bsx; memcpy(rkeep, rs, sizeof rs); }
    }
    if (g_have_snap) { snap_restore(); memcpy(rs, rkeep, sizeof rs); }
    fprintf(h->out, " | sts=");
    for (int i = 0; i < n; i++) fprintf(h->out, "%s%d", i ? "," : "", rs[i].st);
    fprintf(h->out, " dgs=");
    for (int i = 0; i < n; i++) fprintf(h->out, "%s%llu", i ? "," : "", (unsigned long long)rs[i].dg);
    /* the column digests of the first reader that misses the expectation (of reader 0 if none does) */
    int pick = 0; for (int i = n - 1; i >= 0; i--) if (!pd_expected(F, &rs[i])) pick = i;
    pd_print_cdg(h, F, &rs[pick]);
    fprintf(h->out, " ref_st=%d ref_dg=%llu nrep=%d nfail=%d badrep=%d nonatomic=%ld badsec=%ld ilv=%ld",
            ref->st, (unsigned long long)ref->dg, nrep, nfail, badrep, nonat, badsec, ilv);
    print_trace(h->out, "tr");
    fprintf(h->out, " p_same_as_alone=%d p_expected=%d\n", same, expd);
    g_have_snap = 0;
    h->n_lines++;
}

/* ------------------------------------------------------------------ generator / replayer */

static void pd_file_lines(hctx* h, const pd_file* F, int fileno) {
    static const int nts[5] = { 1, 2, 4, 8, 16 };
    static const long bss[4] = { 1000, 7, 16, 64 };   /* 1000: one batch per row group (pages of a chunk loaded in the read loop) */
    int compressed = F->codec != 0;
    g_npref = 0;
    st_files++; st_dictpages += (long)h_ll(h_in(F->l, "dictpages"));
    for (int mode = 0; mode < 3; mode++)
        for (int ti = 0; ti < 5; ti++) {
            long bs = bss[(fileno + mode + ti + (int)h_below(h, 2)) % 4];
            /* the shared FILE* under several workers is where schedules matter: most repetitions go there */
            int hot = mode == 0 && nts[ti] >= 2;
            int reps = hot ? (compressed ? (h->thorough ? 24 : 8) : (h->thorough ? 8 : 3)) : (h->thorough ? 3 : 2);
            do_pd_read(h, F, mode, nts[ti], bs, 1 + h_below(h, 1u << 30), reps);
        }
    for (int mode = 0; mode < 3; mode++) {
        long bs = bss[(fileno + mode + (int)h_below(h, 4)) % 4];
        do_pd_indep(h, F, mode, 4 + (int)h_below(h, 5), 1, bs, 1 + h_below(h, 1u << 30), h->thorough ? 4 : 2);
        if (mode == 0 || h->thorough) do_pd_indep(h, F, mode, 3, 2 + 2 * (int)h_below(h, 2), bs, 1 + h_below(h, 1u << 30), h->thorough ? 4 : 2);
    }
}

static void gen_pardict(hctx* h) {
    if (!h->in_path) { fprintf(stderr, "pardict: needs --in <lines from driver --gen pardict>\n"); exit(2); }
    FILE* in = fopen(h->in_path, "r");
    if (!in) { perror("pardict in"); exit(2); }
    char* line = NULL; size_t cap = 0; int fileno = 0;
    while (getline(&line, &cap, in) > 0) {
        if (line[0] == '#' || line[0] == '\n') { fputs(line, h->out); continue; }
        h_line l;
        if (h_parse_line(line, &l)) { fprintf(stderr, "pardict: bad input line\n"); exit(2); }
        if (strcmp(l.op, "pardict") != 0) { h_free_line(&l); continue; }
        pd_file F;
        if (pd_load(&F, &l)) { fprintf(stderr, "pardict: cannot write scratch file %s\n", F.path); exit(2); }
        pd_file_lines(h, &F, fileno++);
        pd_drop(&F);
        h_free_line(&l);
    }
    free(line); fclose(in);
    fprintf(h->out, "#stat files %ld\n#stat dictionary_pages_in_files %ld\n", st_files, st_dictpages);
    fprintf(h->out, "#stat whole_file_reads %ld\n#stat reads_with_more_than_one_thread %ld\n#stat reads_under_injected_schedule %ld\n",
            st_reads, st_reads_multi, st_reps_perturbed);
    fprintf(h->out, "#stat max_threads_in_one_read %ld\n", st_threads_max);
    fprintf(h->out, "#stat events_recorded %ld\n#stat critical_sections_recorded %ld\n", st_events, st_sections);
    fprintf(h->out, "#stat distinct_interleavings_on_shared_stream %ld\n", g_nseen);
}

static int replay_pardict(hctx* h, const h_line* l) {
    int rd = !strcmp(l->op, "pardict_read"), in = !strcmp(l->op, "pardict_indep");
    if (!rd && !in) return 0;
    pd_file F;
    if (pd_load(&F, l)) { fprintf(stderr, "pardict: cannot write scratch file\n"); return 1; }
    g_npref = 0;
    int mode = (int)h_ll(h_in(l, "mode")), nt = (int)h_ll(h_in(l, "nt")), reps = (int)h_ll(h_in(l, "reps"));
    long bs = (long)h_ll(h_in(l, "bs")); uint64_t sched = (uint64_t)h_ll(h_in(l, "sched"));
    if (reps < 1) reps = 1;
    if (rd) do_pd_read(h, &F, mode, nt, bs, sched, reps);
    else do_pd_indep(h, &F, mode, (int)h_ll(h_in(l, "n")), nt, bs, sched, reps);
    pd_drop(&F);
    return 1;
}

const h_component comp_pardict = { "pardict", gen_pardict, replay_pardict };
