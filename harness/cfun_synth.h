/* Synthetic functions for the self-check of translate/gen_cfun.py (component cfun).
 * They are NOT part of carquet: they exist so that every construct of the translator's supported subset that the
 * carquet functions in FUNCS do not happen to use (for loops, switch with break, signed / % *, signed <<, unary minus,
 * narrow and char types, _Bool locals, compound assignment on narrow types, ?: with side conditions, short-circuit
 * operators guarding undefined behaviour, mixed signed/unsigned comparisons, sizeof, calls) is translated and compared
 * with the compiled C code on every run, including the `_defined` predicate (UBSan must stay silent where it is true). */
#ifndef VERIF_CFUN_SYNTH_H
#define VERIF_CFUN_SYNTH_H
#include <stdint.h>
#include <stddef.h>
#include <stdbool.h>

typedef enum { SYN_RED = 0, SYN_GREEN = 5, SYN_BLUE = -3 } syn_color_t;   /* negative enumerator: signed enum */
typedef struct { int32_t a; struct { uint16_t lo; int8_t hi; } in; bool flag; } syn_rec_t;

static inline int syn_sdiv(int a, int b) { return a / b; }
static inline int syn_smod(int a, int b) { return a % b; }
static inline long syn_smul(long a, long b) { return a * b; }
static inline int syn_neg(int a) { return -a; }
static inline int syn_shl(int a, int n) { return a << n; }
static inline int syn_shr(int a, unsigned n) { return a >> n; }
static inline unsigned syn_ushl(unsigned a, int n) { return a << n; }
static inline uint64_t syn_udivmod(uint64_t a, uint64_t b) { return (a / b) * 7 + a % b; }

/* short-circuit guards the division; ?: guards the shift */
static inline int syn_guard(int a, int b) { return (b != 0 && a / b > 2) || (b == 0 ? a : a << 1) == 8; }

/* for loop with a constant trip count, compound assignments on narrow types, integer promotions */
static inline uint8_t syn_for(uint8_t seed, int8_t step) {
    uint8_t acc = seed;
    for (int i = 0; i < 5; i++) {
        acc += step;
        acc ^= (uint8_t)(acc << 3);
        acc >>= 1;
    }
    return acc;
}

/* switch with break, fall-together labels, default in the middle, negative enumerator */
static inline int syn_switch(syn_color_t c, int x) {
    int r = 1;
    switch (c) {
        case SYN_RED:
            r = x + 1;
            break;
        default:
            r = -7;
            break;
        case SYN_GREEN:
        case SYN_BLUE:
            if (x > 100) {
                return x;
            }
            r = x * 2;
            break;
    }
    return r - 1;
}

/* _Bool parameter and local, char, comparison results used as numbers, mixed signed/unsigned comparison */
static inline long syn_bools(bool p, char c, unsigned u, int s) {
    bool q = p && c < 0;
    bool t = u > 3;
    long k = (s < 0) + (u < (unsigned)s) + (q ? 10 : 20) + t + !p + (long)sizeof(int) + (c == 'A');
    if (s < (int)u) {
        k = -k;
    } else if (q) {
        k += c;
    }
    return k;
}

/* read-only struct access incl. a nested struct and a bool field, passed on to a callee */
static inline int syn_rec_inner(const syn_rec_t* r) { return r->flag ? r->in.hi : (int)r->in.lo; }
static inline int syn_rec(const syn_rec_t* r, short d) {
    int v = syn_rec_inner(r);
    if (r->a < 0) v = -v;
    return v + d + (r->a > 0 ? syn_sdiv(r->a, d) : 0);
}

/* a while loop whose body contains if/else assignments to several variables (join of both paths) */
static inline unsigned syn_collatz(unsigned n) {
    unsigned steps = 0;
    unsigned hi = n;
    n &= 0xFFu;
    while (n > 1 && steps < 200) {
        if (n & 1u) {
            n = 3 * n + 1;
            if (n > hi) hi = n;
        } else {
            n /= 2;
        }
        steps++;
    }
    return steps * 65536u + (hi & 0xFFFFu);
}

/* long long / unsigned long long, unary ~ and ! , ternary chains, int16 arithmetic */
static inline int16_t syn_mix(int16_t a, uint16_t b, long long w) {
    int16_t r = (int16_t)(a + b);
    r -= (int16_t)(w >> 40);
    r = (int16_t)(~r);
    return w < 0 ? (int16_t)-r : (!b ? a : r);
}
#endif
