/* Synthetic functions for the self-check of translate/gen_cfun.py (component cfun).
 * They are NOT part of carquet: they exist so that every construct of the translator's supported subset that the
 * carquet functions in FUNCS do not happen to use (for loops, switch with break, signed / % *, signed <<, unary minus,
 * narrow and char types, _Bool locals, compound assignment on narrow types, ?: with side conditions, short-circuit
 * operators guarding undefined behaviour, mixed signed/unsigned comparisons, sizeof, calls) is translated and compared
 * with the compiled C code on every run, including the `_defined` predicate (UBSan must stay silent where it is true). */
#ifndef VERIF_CFUN_SYNTH_H
#define VERIF_CFUN_SYNTH_H
#include <stdint.h>
#include <stddef.h>
#include <stdbool.h>

typedef enum { SYN_RED = 0, SYN_GREEN = 5, SYN_BLUE = -3 } syn_color_t;   /* negative enumerator: signed enum */
typedef struct { int32_t a; struct { uint16_t lo; int8_t hi; } in; bool flag; } syn_rec_t;

static inline int syn_sdiv(int a, int b) { return a / b; }
static inline int syn_smod(int a, int b) { return a % b; }
static inline long syn_smul(long a, long b) { return a * b; }
static inline int syn_neg(int a) { return -a; }
static inline int syn_shl(int a, int n) { return a << n; }
static inline int syn_shr(int a, unsigned n) { return a >> n; }
static inline unsigned syn_ushl(unsigned a, int n) { return a << n; }
static inline uint64_t syn_udivmod(uint64_t a, uint64_t b) { return (a / b) * 7 + a % b; }

/* short-circuit guards the division; ?: guards the shift */
static inline int syn_guard(int a, int b) { return (b != 0 && a / b > 2) || (b == 0 ? a : a << 1) == 8; }

/* for loop with a constant trip count, compound assignments on narrow types, integer promotions */
static inline uint8_t syn_for(uint8_t seed, int8_t step) {
    uint8_t acc = seed;
    for (int i = 0; i < 5; i++) {
        acc += step;
        acc ^= (uint8_t)(acc << 3);
        acc >>= 1;
    }
    return acc;
}

/* switch with break, fall-together labels, default in the middle, negative enumerator */
static inline int syn_switch(syn_color_t c, int x) {
    int r = 1;
    switch (c) {
        case SYN_RED:
            r = x + 1;
            break;
        default:
            r = -7;
            break;
        case SYN_GREEN:
        case SYN_BLUE:
            if (x > 100) {
                return x;
            }
            r = x * 2;
            break;
    }
    return r - 1;
}

/* _Bool parameter and local, char, comparison results used as numbers, mixed signed/unsigned comparison */
static inline long syn_bools(bool p, char c, unsigned u, int s) {
    bool q = p && c < 0;
    bool t = u > 3;
    long k = (s < 0) + (u < (unsigned)s) + (q ? 10 : 20) + t + !p + (long)sizeof(int) + (c == 'A');
    if (s < (int)u) {
        k = -k;
    } else if (q) {
        k += c;
    }
    return k;
}

/* read-only struct access incl. a nested struct and a bool field, passed on to a callee */
static inline int syn_rec_inner(const syn_rec_t* r) { return r->flag ? r->in.hi : (int)r->in.lo; }
static inline int syn_rec(const syn_rec_t* r, short d) {
    int v = syn_rec_inner(r);
    if (r->a < 0) v = -v;
    return v + d + (r->a > 0 ? syn_sdiv(r->a, d) : 0);
}

/* a while loop whose body contains if/else assignments to several variables (join of both paths) */
static inline unsigned syn_collatz(unsigned n) {
    unsigned steps = 0;
    unsigned hi = n;
    n &= 0xFFu;
    while (n > 1 && steps < 200) {
        if (n & 1u) {
            n = 3 * n + 1;
            if (n > hi) hi = n;
        } else {
            n /= 2;
        }
        steps++;
    }
    return steps * 65536u + (hi & 0xFFFFu);
}

/* long long / unsigned long long, unary ~ and ! , ternary chains, int16 arithmetic */
static inline int16_t syn_mix(int16_t a, uint16_t b, long long w) {
    int16_t r = (int16_t)(a + b);
    r -= (int16_t)(w >> 40);
    r = (int16_t)(~r);
    return w < 0 ? (int16_t)-r : (!b ? a : r);
}
/* ---------------------------------------------------------------------------------------------------------------
 * stage 2: arrays, pointer walks, out-parameters, tables (constructs the carquet functions of FUNCS do not use)
 * --------------------------------------------------------------------------------------------------------------- */
#include <string.h>

static const uint16_t SYN_TAB2[3][4] = { {1, 2, 3, 4}, {50, 60, 70, 80}, {900, 1000} };   /* 2-D, last row zero-filled */
static const int32_t SYN_BIAS = -7;                                                    /* constant scalar global */
static const int8_t SYN_SIGNS[5] = { -1, 1, -128, 127, 0 };

/* `*(p + e)`, `end - p` as a value, pointer decrement, `p[-1]`, a (p, end) pair, signed elements */
static inline int64_t syn_walk_back(const int8_t* p, const int8_t* end) {
    int64_t acc = end - p;
    const int8_t* q = end;
    while (q > p) {
        acc = acc * 3 + q[-1];
        q--;
    }
    if (end - p >= 2) acc += *(p + 1);
    return acc;
}

/* 16-bit elements, `for` with break, a read guarded by `&&`, index arithmetic in size_t */
static inline uint32_t syn_find16(const uint16_t* a, size_t n, uint16_t key) {
    uint32_t pos = 0xFFFFFFFFu;
    for (size_t i = 0; i < n; i++) {
        if (a[i] == key && (i + 1 >= n || a[i + 1] != key)) {
            pos = (uint32_t)i;
            break;
        }
    }
    return pos;
}

/* 2-D constant table, constant scalar, signed table elements: every index obligation is static */
static inline int32_t syn_tables(unsigned r, unsigned c, int k) {
    return (int32_t)SYN_TAB2[r][c] * SYN_SIGNS[k] + SYN_BIAS;
}

/* an uninitialised local array filled by a loop, then read (reads of unwritten elements are undefined: n < 4),
 * an initialised one with a zero-filled tail, `a[i++]`, prefix `--j` in an expression */
static inline uint32_t syn_locals(uint32_t key, int n) {
    uint32_t mask[4];
    uint8_t init[6] = { 3, 1, 4 };
    int i = 0;
    while (i < n && i < 4) {
        mask[i] = key * (uint32_t)(i + 1);
        i++;
    }
    int j = 4;
    uint32_t acc = init[5] + init[1];
    do {
        acc = acc * 31 + mask[--j];
    } while (j > 0);
    return acc ^ init[i++ % 6];
}

/* a callee with an out-parameter and a buffer write, used in the three supported positions; `p + k` passed on */
static inline int syn_put16(uint8_t* dst, uint16_t v, uint32_t* sum) {
    dst[0] = (uint8_t)v;
    dst[1] = (uint8_t)(v >> 8);
    *sum += v;
    return v > 255 ? 2 : 1;
}
static inline int syn_put_many(uint8_t* buf, uint16_t a, uint16_t b, uint32_t* total) {
    uint32_t sum = 1;
    int n = syn_put16(buf, a, &sum);
    int m;
    m = syn_put16(buf + 2, b, &sum);
    syn_put16(buf + 4, (uint16_t)(n + m), &sum);
    *total = sum;
    return n + m;
}

/* big-endian assembly by hand next to the memcpy idiom: a load that is NOT the little-endian one */
static inline uint32_t syn_be_le(const uint8_t* p) {
    uint32_t le;
    memcpy(&le, p + 1, sizeof le);
    uint32_t be = ((uint32_t)p[0] << 24) | ((uint32_t)p[1] << 16) | ((uint32_t)p[2] << 8) | (uint32_t)p[3];
    return be ^ le;
}

/* a loop nest of depth 2 with a data-dependent inner bound, `p += k` with a variable, a store through `*out` on one
 * path only */
static inline size_t syn_runs(const uint8_t* data, size_t size, uint32_t* longest) {
    const uint8_t* p = data;
    const uint8_t* end = data + size;
    size_t runs = 0;
    uint32_t best = 0;
    while (p < end) {
        size_t len = 1;
        while (p + len < end && p[len] == p[0] && len < 9) {
            len++;
        }
        if (len > best) best = (uint32_t)len;
        p += len;
        runs++;
    }
    if (runs > 0) *longest = best;
    return runs;
}
/* a do-while whose body runs although the condition is false from the start (n = 0), with a break */
static inline uint32_t syn_do_once(uint32_t x, uint32_t n) {
    uint32_t c = 0;
    do {
        x = x * 3u + 1u;
        if (x == 0xFFFFFFFFu) break;
        c++;
    } while (c < n && c < 20);
    return x + c;
}

/* ---------------------------------------------------------------------------------------------------------------
 * stage 3: structs passed by pointer (constructs the carquet functions of FUNCS do not use)
 * --------------------------------------------------------------------------------------------------------------- */
#include <assert.h>

typedef struct syn_inner {
    const uint8_t* cur;       /* read cursor: a pointer field that MOVES (`*s->cur++`, `s->cur += k`) */
    uint16_t left;            /* narrow unsigned counter (`left--`, `left -= k` computed in int) */
    int8_t bias;              /* narrow signed field */
} syn_inner_t;

typedef struct syn_outer {
    syn_inner_t in;           /* nested struct, passed on as `&o->in` */
    uint8_t* dst;             /* second pointer field, into ANOTHER array, written through */
    size_t dst_pos;
    uint32_t hist[2][3];      /* 2-D array field */
    bool sticky;
    int32_t total;
    char label[8];            /* opaque: never translated (see STRUCT_OPAQUE) */
} syn_outer_t;

/* `*s->cur++`, `s->left--` as statements and inside expressions, compound assignment on narrow fields */
static inline int syn_take(syn_inner_t* s) {
    if (s->left == 0) return -1;
    int b = *s->cur++;
    s->left--;
    s->bias += (int8_t)(b & 3);
    return b + s->bias;
}

/* read-only struct (`const T*`): array-free, all fields read, pointer field dereferenced without moving */
static inline uint32_t syn_peek2(const syn_inner_t* s) {
    if (s->left < 2) return 0xFFFFFFFFu;
    return (uint32_t)s->cur[0] | ((uint32_t)s->cur[1] << 8) | ((uint32_t)(uint8_t)s->bias << 16);
}

/* nested struct handed to a callee (`&o->in`) inside a loop, callee effect threaded back every iteration; 2-D array
 * field with run-time indices; a store through the second pointer field (`o->dst[o->dst_pos++]`); a bool field as latch;
 * `break` out of the loop */
static inline int syn_pump(syn_outer_t* o, int n) {
    int moved = 0;
    for (int i = 0; i < n && i < 5; i++) {
        int v = syn_take(&o->in);
        if (v < 0) {
            o->sticky = true;
            break;
        }
        o->hist[i & 1][(unsigned)v % 3u] += 1;
        o->dst[o->dst_pos++] = (uint8_t)v;
        o->total += v;
        moved++;
    }
    return moved;
}

/* a const struct argument passed on to a callee that takes it const, result used in an expression; second struct
 * parameter; pointer field `+=` with a run-time amount; assert on a relation between fields */
static inline uint32_t syn_skip2(syn_inner_t* s, const syn_inner_t* other) {
    assert(s->left >= other->left);
    uint32_t w = syn_peek2(s) ^ syn_peek2(other);
    if (s->left >= 2) {
        s->cur += 2;
        s->left -= 2;
    }
    return w;
}

/* run-time-length memcpy between two arrays, both at an offset (through two pointer fields of one struct) */
static inline size_t syn_copy(syn_outer_t* o, size_t n) {
    if (n > o->in.left) n = o->in.left;
    memcpy(o->dst + o->dst_pos, o->in.cur, n);
    o->dst_pos += n;
    o->in.cur += n;
    o->in.left = (uint16_t)(o->in.left - n);
    return n;
}

/* run-time-length memcpy into an integer local (little-endian partial load, the other bytes keep their value) and into
 * a local byte array that is then read */
static inline uint64_t syn_partial(const uint8_t* p, size_t n, uint32_t seed) {
    uint64_t v = 0x1122334455667788ull;
    uint32_t w = seed;
    uint8_t tmp[6] = { 9, 8, 7 };
    if (n > 8) n = 8;
    memcpy(&v, p, n);
    memcpy(&w, p, n > 4 ? 4 : n);
    memcpy(tmp + 1, p, n > 5 ? 5 : n);
    return v ^ ((uint64_t)w << 32) ^ tmp[0] ^ ((uint64_t)tmp[3] << 8) ^ ((uint64_t)tmp[5] << 16);
}

/* an initialiser that aims a pointer field at an array parameter (`fieldbase`), and a function that takes the struct
 * twice through a callee chain with a returned value in a larger expression (hoisted call) */
static inline void syn_inner_init(syn_inner_t* s, const uint8_t* data, uint16_t n) {
    s->cur = data;
    s->left = n;
    s->bias = -3;
}
static inline int syn_sum2(syn_inner_t* s, int* second) {
    int a = syn_take(s) * 2;
    *second = (int16_t)syn_take(s);
    return a + *second;
}
#endif
