/* C08 (remaining decoders) + C11/C12 (bit IO): src/encoding/rle.c decoders on ARBITRARY bytes with any
 * declared bit width, src/core/bitpack.c raw unpackers / bit reader / bit writer, src/core/buffer.h read cursor,
 * Thrift parsers on hostile length varints, and the four decompressors with allocation balance.
 * Everything handed to carquet lives in exact-size heap buffers (ASan sees a one-byte over-read / over-write).
 * Drivers: lean/Driver/Ops/C08More.lean.
 *
 * component c8rle
 *  c8_rle w=W data=x.. ops=g.b5.s3 kind=K | obs=v7.b1:2.s3 st=S pos=P hn=B p_bal=B   streaming decoder history
 *  c8_all w=W n=INT data=x.. kind=K       | r=INT vals=.. p_bal=B                     carquet_rle_decode_all (exact n*4-byte output)
 *  c8_lev w=W n=INT data=x.. kind=K       | r=INT vals=ints p_bal=B                   carquet_rle_decode_levels (exact n*2-byte output)
 *  c8_pfx w=W n=INT data=x.. kind=K       | r=INT used=N vals=ints p_bal=B            carquet_rle_decode_levels_prefixed
 * component c8bits
 *  c8_bu8 w=W data=x(w bytes)             | vals=..                                   carquet_bitunpack8_32 on exactly w bytes
 *  c8_bu w=W n=N data=x(packed_size)      | vals=.. used=N                            carquet_bitunpack_32 on exactly packed_size(n,w) bytes
 *  c8_brd data=x.. ops=b.r5.q40.m.n       | obs=b1.v3.v9.m1.n12 pos=P bits=B          bit reader history
 *  c8_bwr cap=C ops=b1.w<v>:<n>.q<v>:<n>.f | out=x.. n=N bits=B p_rt=B [p_spec=B]      bit writer history (p_rt: real reader returns the
 *                                                                                      written fields when the capacity sufficed)
 *  c8_buf data=x.. ops=h5.r.p.s3.d4.b.u16.u32.u64.f32.f64 | obs=.. pos=P               buffer read cursor history
 * component c8codec
 *  c8_dec codec=0..3 cap=C src=x.. kind=K [dok=B dout=x..] | st=S n=N out=x.. p_bal=B p_le=B   snappy/lz4/gzip/zstd decompress
 *  c8_bal dec=NAME n=INT w=W data=x..     | st=INT p_bal=B                             allocation balance of the other decoders
 * component c8thrift
 *  c8_th kind=pfm|pph b=x.. site=S        | st=INT used=N rc=N p_term=B p_bal=B        parsers on hostile binary lengths (forked child)
 */
#include "common.h"
#include "encoding/rle.h"
#include "core/bitpack.h"
#include "core/buffer.h"
#include "core/endian.h"
#include "core/arena.h"
#include "thrift/parquet_types.h"
#include <inttypes.h>
#include <sys/wait.h>
#include <zlib.h>
#include <zstd.h>

int carquet_snappy_compress(const uint8_t*, size_t, uint8_t*, size_t, size_t*);
int carquet_snappy_decompress(const uint8_t*, size_t, uint8_t*, size_t, size_t*);
size_t carquet_snappy_compress_bound(size_t);
int carquet_lz4_compress(const uint8_t*, size_t, uint8_t*, size_t, size_t*);
int carquet_lz4_decompress(const uint8_t*, size_t, uint8_t*, size_t, size_t*);
size_t carquet_lz4_compress_bound(size_t);
int carquet_gzip_compress(const uint8_t*, size_t, uint8_t*, size_t, size_t*, int);
int carquet_gzip_decompress(const uint8_t*, size_t, uint8_t*, size_t, size_t*);
size_t carquet_gzip_compress_bound(size_t);
int carquet_zstd_compress(const uint8_t*, size_t, uint8_t*, size_t, size_t*, int);
int carquet_zstd_decompress(const uint8_t*, size_t, uint8_t*, size_t, size_t*);
size_t carquet_zstd_compress_bound(size_t);
carquet_status_t carquet_delta_decode_int32(const uint8_t*, size_t, int32_t*, int32_t, size_t*);
carquet_status_t carquet_delta_decode_int64(const uint8_t*, size_t, int64_t*, int32_t, size_t*);
carquet_status_t carquet_delta_length_decode(const uint8_t*, size_t, carquet_byte_array_t*, int32_t, size_t*);
carquet_status_t carquet_delta_strings_decode(const uint8_t*, size_t, carquet_byte_array_t*, int32_t, uint8_t*, size_t, size_t*);
carquet_status_t carquet_dictionary_decode_int32(const uint8_t*, size_t, int32_t, const uint8_t*, size_t, int32_t*, int64_t);
carquet_status_t carquet_dictionary_decode_int64(const uint8_t*, size_t, int32_t, const uint8_t*, size_t, int64_t*, int64_t);

/* live heap bytes as the sanitizer's allocator counts them (malloc/calloc/realloc minus free) */
extern size_t __sanitizer_get_current_allocated_bytes(void) __attribute__((weak));
static size_t live_bytes(void) { return __sanitizer_get_current_allocated_bytes ? __sanitizer_get_current_allocated_bytes() : 0; }

/* undefined behaviour other than memory errors: UBSan calls this hook for every report it prints; each op compares the
 * counter before and after the call(s) into carquet (p_noub) */
static volatile long g_ub_reports;
void __ubsan_on_report(void) { g_ub_reports++; }

static long st_lines[16], st_wide, st_err, st_ok, st_mut, st_gram, st_raw, st_cut, st_unbal, st_ub;

/* ---------- printing ---------- */
static void pr_u32s(FILE* f, const uint32_t* v, size_t n) {
    if (n == 0) { fputc('-', f); return; }
    for (size_t i = 0; i < n; i++) fprintf(f, i ? ",%u" : "%u", v[i]);
}
static void pr_i16s(FILE* f, const int16_t* v, size_t n) {
    if (n == 0) { fputc('-', f); return; }
    for (size_t i = 0; i < n; i++) fprintf(f, i ? ",%d" : "%d", (int)v[i]);
}
static uint8_t* bytes_exact(const uint8_t* v, size_t n) { uint8_t* p = h_alloc(n); if (n) memcpy(p, v, n); return p; }

/* =====================================================================  RLE decoders  ===== */

/* ops: g get, b<k> get_batch, s<k> skip; separated by '.' */
static void do_c8_rle(hctx* h, int w, const uint8_t* d, size_t dn, const char* ops, const char* kind) {
    uint8_t* in = bytes_exact(d, dn);
    fprintf(h->out, "c8_rle w=%d data=", w); h_hex(h->out, in, dn);
    fprintf(h->out, " ops=%s kind=%s", *ops ? ops : "-", kind); h_call(h);
    /* results are collected first, printed afterwards: nothing may allocate between the two balance readings */
    enum { MAXOBS = 64 };
    struct { char k; int64_t r; uint32_t* o; } obs[MAXOBS]; int no = 0;
    for (const char* c = ops; *c && no < MAXOBS; ) {           /* output buffers allocated before the measurement */
        if (*c == 'g') { obs[no].k = 'g'; obs[no].o = NULL; obs[no].r = 0; no++; c++; }
        else if (*c == 'b' || *c == 's') { char k = *c; long n = strtol(c + 1, (char**)&c, 10);
            obs[no].k = k; obs[no].r = n; obs[no].o = k == 'b' ? (uint32_t*)h_alloc((size_t)n * sizeof(uint32_t)) : NULL; no++; }
        else c++;
        if (*c == '.') c++;
    }
    size_t before = live_bytes(); long ub0 = g_ub_reports;
    carquet_rle_decoder_t dec; carquet_rle_decoder_init(&dec, in, dn, w);
    for (int i = 0; i < no; i++) {
        if (obs[i].k == 'g') obs[i].r = (int64_t)carquet_rle_decoder_get(&dec);
        else if (obs[i].k == 'b') obs[i].r = carquet_rle_decoder_get_batch(&dec, obs[i].o, obs[i].r);
        else obs[i].r = carquet_rle_decoder_skip(&dec, obs[i].r);
    }
    int hn = (int)carquet_rle_decoder_has_next(&dec);
    size_t after = live_bytes();
    fprintf(h->out, " | obs=");
    if (!no) fputc('-', h->out);
    for (int i = 0; i < no; i++) {
        if (i) fputc('.', h->out);
        if (obs[i].k == 'g') fprintf(h->out, "v%u", (uint32_t)obs[i].r);
        else if (obs[i].k == 'b') { fputc('b', h->out); for (int64_t j = 0; j < obs[i].r; j++) fprintf(h->out, j ? ":%u" : "%u", obs[i].o[j]); free(obs[i].o); }
        else fprintf(h->out, "s%" PRId64, obs[i].r);
    }
    fprintf(h->out, " st=%d pos=%zu hn=%d p_bal=%d p_noub=%d\n", dec.status == CARQUET_OK ? 0 : 1, dec.pos, hn, before == after, ub0 == g_ub_reports);
    if (before != after) st_unbal++;
    if (ub0 != g_ub_reports) st_ub++;
    if (dec.status != CARQUET_OK) st_err++; else st_ok++;
    if (w > 32) st_wide++;
    h->n_lines++; st_lines[0]++; free(in);
}
static void do_c8_all(hctx* h, int w, long long n, const uint8_t* d, size_t dn, const char* kind) {
    uint8_t* in = bytes_exact(d, dn);
    uint32_t* out = (uint32_t*)h_alloc((n > 0 ? (size_t)n : 0) * sizeof(uint32_t));
    fprintf(h->out, "c8_all w=%d n=%lld data=", w, n); h_hex(h->out, in, dn); fprintf(h->out, " kind=%s", kind); h_call(h);
    size_t before = live_bytes(); long ub0 = g_ub_reports;
    int64_t r = carquet_rle_decode_all(in, dn, w, out, (int64_t)n);
    size_t after = live_bytes();
    fprintf(h->out, " | r=%" PRId64 " vals=", r); pr_u32s(h->out, out, r > 0 ? (size_t)r : 0);
    fprintf(h->out, " p_bal=%d p_noub=%d\n", before == after, ub0 == g_ub_reports);
    if (ub0 != g_ub_reports) st_ub++;
    if (w > 32) st_wide++;
    h->n_lines++; st_lines[1]++; free(in); free(out);
}
static void do_c8_lev(hctx* h, int w, long long n, const uint8_t* d, size_t dn, const char* kind) {
    uint8_t* in = bytes_exact(d, dn);
    int16_t* out = (int16_t*)h_alloc((n > 0 ? (size_t)n : 0) * sizeof(int16_t));
    fprintf(h->out, "c8_lev w=%d n=%lld data=", w, n); h_hex(h->out, in, dn); fprintf(h->out, " kind=%s", kind); h_call(h);
    size_t before = live_bytes(); long ub0 = g_ub_reports;
    int64_t r = carquet_rle_decode_levels(in, dn, w, out, (int64_t)n);
    size_t after = live_bytes();
    fprintf(h->out, " | r=%" PRId64 " vals=", r); pr_i16s(h->out, out, r > 0 ? (size_t)r : 0);
    fprintf(h->out, " p_bal=%d p_noub=%d\n", before == after, ub0 == g_ub_reports);
    if (ub0 != g_ub_reports) st_ub++;
    if (w > 32) st_wide++;
    h->n_lines++; st_lines[2]++; free(in); free(out);
}
static void do_c8_pfx(hctx* h, int w, long long n, const uint8_t* d, size_t dn, const char* kind) {
    uint8_t* in = bytes_exact(d, dn);
    int16_t* out = (int16_t*)h_alloc((n > 0 ? (size_t)n : 0) * sizeof(int16_t));
    fprintf(h->out, "c8_pfx w=%d n=%lld data=", w, n); h_hex(h->out, in, dn); fprintf(h->out, " kind=%s", kind); h_call(h);
    size_t used = 12345;
    size_t before = live_bytes(); long ub0 = g_ub_reports;
    int64_t r = carquet_rle_decode_levels_prefixed(in, dn, w, out, (int64_t)n, &used);
    size_t after = live_bytes();
    fprintf(h->out, " | r=%" PRId64 " used=%zu vals=", r, used); pr_i16s(h->out, out, r > 0 ? (size_t)r : 0);
    fprintf(h->out, " p_bal=%d p_noub=%d\n", before == after, ub0 == g_ub_reports);
    if (ub0 != g_ub_reports) st_ub++;
    if (r < 0) st_err++;
    h->n_lines++; st_lines[3]++; free(in); free(out);
}

/* ---------- generators for RLE streams ---------- */
static const int decl_w[] = {0, 1, 2, 3, 5, 7, 8, 9, 15, 16, 17, 24, 31, 32, 33, 39, 40, 41, 48, 63, 64, 65, 127, 128, 200, 255};
static int rand_decl_width(hctx* h) { return h_chance(h, 2, 3) ? decl_w[h_below(h, sizeof decl_w / sizeof decl_w[0])] : (int)h_below(h, 256); }
static int rand_gen_width(hctx* h) { static const int ws[] = {0, 1, 2, 3, 7, 8, 9, 16, 17, 31, 32}; return h_chance(h, 1, 2) ? ws[h_below(h, 11)] : (int)h_below(h, 33); }
static uint32_t wmask(int w) { return w >= 32 ? 0xFFFFFFFFu : ((1u << w) - 1u); }
static uint32_t rand_val(hctx* h, int w) { uint32_t m = wmask(w); switch (h_below(h, 4)) { case 0: return 0; case 1: return m; default: return (uint32_t)h_next(h) & m; } }
static void put_bits(uint8_t* buf, size_t* bitpos, uint32_t v, int w) {
    for (int b = 0; b < w; b++) { if ((v >> b) & 1u) buf[*bitpos / 8] |= (uint8_t)(1u << (*bitpos % 8)); (*bitpos)++; }
}
static size_t put_header(hctx* h, uint8_t* buf, uint32_t hd, int allow_long) {
    size_t n = 0; uint32_t v = hd;
    while (v >= 0x80) { buf[n++] = (uint8_t)((v & 0x7F) | 0x80); v >>= 7; }
    buf[n++] = (uint8_t)v;
    if (allow_long && n < 5 && h_chance(h, 1, 4)) {          /* over-long: extra zero digits */
        size_t extra = 1 + (size_t)h_below(h, 5 - n);
        buf[n - 1] |= 0x80;
        for (size_t i = 0; i + 1 < extra; i++) buf[n++] = 0x80;
        buf[n++] = 0x00;
    }
    return n;
}
/* grammar: legal runs written at width w (<= 32): RLE runs (length 0 allowed), bit-packed runs of 0..5 groups;
 * *nvals receives the number of values the runs denote */
static size_t gen_stream(hctx* h, int w, uint8_t* buf, size_t cap, size_t* nvals) {
    size_t n = 0, ne = 0; int runs = 1 + (int)h_below(h, 6);
    for (int r = 0; r < runs; r++) {
        if (h_chance(h, 1, 2)) {
            static const uint32_t cnts[] = {0, 0, 1, 2, 7, 8, 9, 31, 100};
            uint32_t cnt = cnts[h_below(h, 9)];
            if (n + 5 + 4 > cap) break;
            uint32_t v = rand_val(h, w);
            n += put_header(h, buf + n, cnt << 1, 1);
            for (int i = 0; i < (w + 7) / 8; i++) buf[n++] = (uint8_t)(v >> (8 * i));
            ne += cnt;
        } else {
            static const uint32_t gs[] = {0, 1, 1, 2, 3, 5};
            uint32_t g = gs[h_below(h, 6)];
            if (n + 5 + (size_t)g * (size_t)w > cap) break;
            n += put_header(h, buf + n, (g << 1) | 1, 1);
            memset(buf + n, 0, (size_t)g * (size_t)w);
            size_t bitpos = 0;
            for (uint32_t i = 0; i < 8 * g; i++) put_bits(buf + n, &bitpos, rand_val(h, w), w);
            n += (size_t)g * (size_t)w; ne += 8 * g;
        }
    }
    *nvals = ne;
    return n;
}
/* a valid encoding produced by carquet's own encoder */
static size_t gen_encoded(hctx* h, int w, uint8_t* buf, size_t cap, size_t* nvals) {
    uint32_t vals[200]; size_t n = 0, want = (size_t)h_below(h, 120);
    while (n < want) { uint32_t v = rand_val(h, w); size_t run = h_chance(h, 1, 2) ? 1 + (size_t)h_below(h, 3) : 8 + (size_t)h_below(h, 30);
        for (size_t j = 0; j < run && n < want; j++) vals[n++] = v; }
    carquet_buffer_t b; carquet_buffer_init(&b);
    carquet_rle_encode_all(vals, (int64_t)n, w, &b);
    size_t len = carquet_buffer_size(&b) < cap ? carquet_buffer_size(&b) : cap;
    if (len) memcpy(buf, carquet_buffer_data(&b), len);
    carquet_buffer_destroy(&b);
    *nvals = n;
    return len;
}
static size_t mutate(hctx* h, uint8_t* buf, size_t n, size_t cap) {
    switch (h_below(h, 6)) {
    case 0: if (n) n = (size_t)h_below(h, n); break;                                  /* truncate */
    case 1: if (n) buf[h_below(h, n)] ^= (uint8_t)(1u << h_below(h, 8)); break;       /* bit flip */
    case 2: if (n) buf[h_below(h, n)] = (uint8_t)h_next(h); break;                    /* byte smash */
    case 3: { size_t k = 1 + (size_t)h_below(h, 6); while (k-- && n < cap) buf[n++] = (uint8_t)h_next(h); } break;  /* trailing bytes */
    case 4: if (n) buf[h_below(h, n)] |= 0x80; break;                                 /* continuation bit */
    default: if (n) { size_t i = (size_t)h_below(h, n); buf[i] = 0xFF; } break;
    }
    return n;
}
static void gen_hist(hctx* h, char* s, size_t cap, int nops, int maxk) {
    size_t p = 0;
    for (int i = 0; i < nops && p + 16 < cap; i++) {
        if (i) s[p++] = '.';
        static const int ks[] = {0, 1, 2, 7, 8, 9, 16, 17, 64};
        int k = h_chance(h, 1, 2) ? ks[h_below(h, 9)] : (int)h_below(h, (uint64_t)maxk + 1);
        switch (h_below(h, 3)) { case 0: s[p++] = 'g'; break; case 1: p += (size_t)sprintf(s + p, "b%d", k); break; default: p += (size_t)sprintf(s + p, "s%d", k); break; }
    }
    s[p] = 0;
}
/* counts at, below and above what a stream of nvals values holds */
static long long pick_count(hctx* h, size_t nvals) {
    switch (h_below(h, 8)) { case 0: return (long long)nvals; case 1: return nvals ? (long long)nvals - 1 : 0; case 2: return (long long)nvals + 1;
        case 3: return 0; case 4: return -1; case 5: return (long long)nvals + 8; case 6: return (long long)nvals + 200; default: return (long long)h_below(h, nvals + 20); }
}
static void rle_all_entry_points(hctx* h, int w, const uint8_t* d, size_t dn, size_t nvals, const char* kind, int nhist) {
    char ops[300];
    long long n = pick_count(h, nvals);
    do_c8_all(h, w, n, d, dn, kind);
    do_c8_lev(h, w, pick_count(h, nvals), d, dn, kind);
    for (int i = 0; i < nhist; i++) { gen_hist(h, ops, sizeof ops, 1 + (int)h_below(h, 6), (int)nvals + 10); do_c8_rle(h, w, d, dn, ops, kind); }
    /* the same payload behind a length prefix: exact, one more, one less, huge, wrap-around neighbours */
    uint8_t* p = h_alloc(dn + 8);
    static const long long deltas[] = {0, 0, 0, 1, -1, 2, 5};
    long long dl = deltas[h_below(h, 7)];
    uint64_t L = (uint64_t)((long long)dn + dl);
    if (h_chance(h, 1, 6)) { static const uint64_t hostile[] = {0xFFFFFFFFull, 0xFFFFFFFCull, 0xFFFFFFFDull, 0x80000000ull, 0x7FFFFFFFull}; L = hostile[h_below(h, 5)]; }
    p[0] = (uint8_t)L; p[1] = (uint8_t)(L >> 8); p[2] = (uint8_t)(L >> 16); p[3] = (uint8_t)(L >> 24);
    if (dn) memcpy(p + 4, d, dn);
    size_t extra = (size_t)h_below(h, 4);
    for (size_t i = 0; i < extra; i++) p[4 + dn + i] = (uint8_t)h_next(h);
    do_c8_pfx(h, w, pick_count(h, nvals), p, 4 + dn + extra, kind);
    free(p);
}

static void gen_c8rle(hctx* h) {
    enum { MAXB = 1024 };
    uint8_t* buf = h_alloc(MAXB);
    long scale = h->thorough ? 10 : 1;
    size_t nv;

    /* regression witnesses first: F80 (width 33, five value bytes; bit-packed group at widths 40 / 64 / 70), F33, F31, F58 */
    { static const uint8_t f80[] = {0x10, 0x01, 0x02, 0x03, 0x04, 0x05};
      do_c8_all(h, 33, 8, f80, sizeof f80, "F80"); do_c8_lev(h, 33, 8, f80, sizeof f80, "F80"); do_c8_rle(h, 33, f80, sizeof f80, "g.b4.s2", "F80");
      uint8_t g[72]; g[0] = 0x03; for (int i = 0; i < 71; i++) g[1 + i] = (uint8_t)(i + 1);
      do_c8_all(h, 40, 8, g, 41, "F80"); do_c8_all(h, 64, 8, g, 65, "F80"); do_c8_all(h, 70, 8, g, 71, "F80"); do_c8_lev(h, 70, 8, g, 71, "F80");
      do_c8_all(h, 255, 8, g, 71, "F80"); do_c8_lev(h, 255, 3, g, 71, "F80");
      static const uint8_t f33[] = {0xFF, 0xFF, 0xFF, 0xFF, 0x02, 0x01};
      do_c8_pfx(h, 1, 5, f33, sizeof f33, "F33");
      static const uint8_t f31[] = {0x00, 0x05, 0x02, 0x03};
      do_c8_all(h, 3, 1, f31, 4, "F31"); do_c8_lev(h, 3, 1, f31, 4, "F31");
      static const uint8_t f58[] = {0x03, 0x02, 0x05};
      do_c8_all(h, 8, 4, f58, 3, "F58"); do_c8_lev(h, 8, 4, f58, 3, "F58"); }

    /* boundary-directed: every prefix of small streams (cut before/after each header byte, run value byte, group byte,
     * prefix byte) at the width they were written with and at neighbouring / wide declared widths */
    for (int rep = 0; rep < (h->thorough ? 12 : 3); rep++) {
        int w = rep == 0 ? 9 : rep == 1 ? 1 : rep == 2 ? 32 : rand_gen_width(h);
        size_t n = gen_stream(h, w, buf, 60, &nv);
        for (size_t cut = 0; cut <= n; cut++) {
            st_cut++;
            do_c8_all(h, w, (long long)nv, buf, cut, "cut"); do_c8_lev(h, w, (long long)nv, buf, cut, "cut");
            do_c8_rle(h, w, buf, cut, "b3.g.s4.b100", "cut");
        }
        /* the same stream behind its length prefix: every cut, including inside the prefix and right after it */
        { uint8_t p[80]; uint32_t L = (uint32_t)n;
          p[0] = (uint8_t)L; p[1] = (uint8_t)(L >> 8); p[2] = (uint8_t)(L >> 16); p[3] = (uint8_t)(L >> 24); memcpy(p + 4, buf, n);
          for (size_t cut = 0; cut <= n + 4; cut++) { st_cut++; do_c8_pfx(h, w, (long long)nv, p, cut, "cut"); }
          /* prefix one more / one less than what follows */
          p[0] = (uint8_t)(L + 1); do_c8_pfx(h, w, (long long)nv, p, n + 4, "cut");
          if (L) { p[0] = (uint8_t)(L - 1); do_c8_pfx(h, w, (long long)nv, p, n + 4, "cut"); } }
    }

    /* three streams per decoder x declared widths over 0..255 x counts */
    for (long i = 0; i < 1100 * scale; i++) {
        int gw = i < 33 ? (int)i : rand_gen_width(h);
        int dw = h_chance(h, 3, 5) ? gw : rand_decl_width(h);                  /* declared width: the true one or any other */
        size_t n; const char* kind;
        switch (i % 3) {
        case 0: n = gen_encoded(h, gw, buf, MAXB - 16, &nv); if (h_chance(h, 2, 3)) { n = mutate(h, buf, n, MAXB - 16); kind = "mut"; st_mut++; } else kind = "enc"; break;
        case 1: n = gen_stream(h, gw, buf, MAXB - 16, &nv); kind = "gram"; st_gram++; if (h_chance(h, 1, 4)) { n = mutate(h, buf, n, MAXB - 16); kind = "grammut"; } break;
        default: n = (size_t)h_below(h, 48); h_fill(h, buf, n, (int)h_below(h, 5)); nv = (size_t)h_below(h, 64); dw = rand_decl_width(h); kind = "raw"; st_raw++; break;
        }
        rle_all_entry_points(h, dw, buf, n, nv, kind, 1);
    }
    free(buf);
    fprintf(h->out, "#stat c8_rle %ld\n#stat c8_all %ld\n#stat c8_lev %ld\n#stat c8_pfx %ld\n", st_lines[0], st_lines[1], st_lines[2], st_lines[3]);
    fprintf(h->out, "#stat width_above_32 %ld\n#stat stream_status_error %ld\n#stat stream_status_ok %ld\n", st_wide, st_err, st_ok);
    fprintf(h->out, "#stat mutated %ld\n#stat grammar %ld\n#stat raw %ld\n#stat cut_positions %ld\n#stat unbalanced %ld\n#stat ubsan_reports %ld\n", st_mut, st_gram, st_raw, st_cut, st_unbal, st_ub);
}

/* =====================================================================  raw bit unpacking, bit IO, buffer cursor  ===== */

static void do_c8_bu8(hctx* h, int w, const uint8_t* d) {
    uint8_t* in = bytes_exact(d, (size_t)w);
    uint32_t* out = (uint32_t*)h_alloc(8 * sizeof(uint32_t));
    fprintf(h->out, "c8_bu8 w=%d data=", w); h_hex(h->out, in, (size_t)w); h_call(h);
    long ub0 = g_ub_reports;
    carquet_bitunpack8_32(in, w, out);
    fprintf(h->out, " | vals="); pr_u32s(h->out, out, 8); fprintf(h->out, " p_noub=%d\n", ub0 == g_ub_reports);
    h->n_lines++; st_lines[4]++; free(in); free(out);
}
static void do_c8_bu(hctx* h, int w, size_t n, const uint8_t* d) {
    size_t ps = carquet_packed_size(n, w);
    uint8_t* in = bytes_exact(d, ps);
    uint32_t* out = (uint32_t*)h_alloc(n * sizeof(uint32_t));
    fprintf(h->out, "c8_bu w=%d n=%zu data=", w, n); h_hex(h->out, in, ps); h_call(h);
    long ub0 = g_ub_reports;
    size_t used = carquet_bitunpack_32(in, n, w, out);
    fprintf(h->out, " | vals="); pr_u32s(h->out, out, n); fprintf(h->out, " used=%zu p_noub=%d\n", used, ub0 == g_ub_reports);
    h->n_lines++; st_lines[5]++; free(in); free(out);
}
/* ops: b read_bit, r<k> read_bits, q<k> read_bits64, m has_more, n remaining_bits */
static void do_c8_brd(hctx* h, const uint8_t* d, size_t dn, const char* ops) {
    uint8_t* in = bytes_exact(d, dn);
    fprintf(h->out, "c8_brd data="); h_hex(h->out, in, dn); fprintf(h->out, " ops=%s", *ops ? ops : "-"); h_call(h);
    long ub0 = g_ub_reports;
    carquet_bit_reader_t r; carquet_bit_reader_init(&r, in, dn);
    fprintf(h->out, " | obs=");
    int first = 1; const char* c = ops;
    if (!*c) fputc('-', h->out);
    while (*c) {
        if (!first) fputc('.', h->out);
        first = 0;
        if (*c == 'b') { fprintf(h->out, "b%d", carquet_bit_reader_read_bit(&r)); c++; }
        else if (*c == 'r') { long k = strtol(c + 1, (char**)&c, 10); fprintf(h->out, "v%u", carquet_bit_reader_read_bits(&r, (int)k)); }
        else if (*c == 'q') { long k = strtol(c + 1, (char**)&c, 10); fprintf(h->out, "v%" PRIu64, carquet_bit_reader_read_bits64(&r, (int)k)); }
        else if (*c == 'm') { fprintf(h->out, "m%d", (int)carquet_bit_reader_has_more(&r)); c++; }
        else if (*c == 'n') { fprintf(h->out, "n%zu", carquet_bit_reader_remaining_bits(&r)); c++; }
        else c++;
        if (*c == '.') c++;
    }
    fprintf(h->out, " pos=%zu bits=%d p_noub=%d\n", r.byte_pos, r.buffer_bits, ub0 == g_ub_reports);
    h->n_lines++; st_lines[6]++; free(in);
}
/* ops: b<bit> write_bit, w<v>:<n> write_bits, q<v>:<n> write_bits64, f flush */
static void do_c8_bwr(hctx* h, size_t cap, const char* ops, int uniform_w) {
    uint8_t* out = h_alloc(cap);
    fprintf(h->out, "c8_bwr cap=%zu ops=%s", cap, *ops ? ops : "-");
    if (uniform_w >= 0) fprintf(h->out, " uw=%d", uniform_w);
    h_call(h);
    long ub0 = g_ub_reports;
    carquet_bit_writer_t w; carquet_bit_writer_init(&w, out, cap);
    uint64_t total = 0; int flushed_mid = 0;
    const char* c = ops;
    while (*c) {
        if (*c == 'b') { long b = strtol(c + 1, (char**)&c, 10); carquet_bit_writer_write_bit(&w, (int)b); total += 1; }
        else if (*c == 'w') { unsigned long long v = strtoull(c + 1, (char**)&c, 10); long k = strtol(c + 1, (char**)&c, 10);
            carquet_bit_writer_write_bits(&w, (uint32_t)v, (int)k); total += (uint64_t)(k > 32 ? 32 : k); }
        else if (*c == 'q') { unsigned long long v = strtoull(c + 1, (char**)&c, 10); long k = strtol(c + 1, (char**)&c, 10);
            carquet_bit_writer_write_bits64(&w, (uint64_t)v, (int)k); total += (uint64_t)(k > 64 ? 64 : k); }
        else if (*c == 'f') { carquet_bit_writer_flush(&w); c++; if (*c) flushed_mid = 1; }
        else c++;
        if (*c == '.') c++;
    }
    size_t nb = carquet_bit_writer_bytes_written(&w);
    fprintf(h->out, " | out="); h_hex(h->out, out, nb <= cap ? nb : 0);
    fprintf(h->out, " n=%zu bits=%d p_noub=%d", nb, w.buffer_bits, ub0 == g_ub_reports);
    /* round trip through the real reader when the capacity sufficed and the only flush is the last call */
    if (!flushed_mid && (total + 7) / 8 <= cap && nb <= cap) {
        uint8_t* back = bytes_exact(out, nb);
        carquet_bit_reader_t r; carquet_bit_reader_init(&r, back, nb);
        int ok = nb == (total + 7) / 8;
        for (c = ops; *c; ) {
            if (*c == 'b') { long b = strtol(c + 1, (char**)&c, 10); if (carquet_bit_reader_read_bit(&r) != (int)(b & 1)) ok = 0; }
            else if (*c == 'w') { unsigned long long v = strtoull(c + 1, (char**)&c, 10); long k = strtol(c + 1, (char**)&c, 10);
                long kk = k > 32 ? 32 : k; uint32_t m = kk >= 32 ? 0xFFFFFFFFu : ((1u << kk) - 1u);
                if (carquet_bit_reader_read_bits(&r, (int)k) != ((uint32_t)v & m)) ok = 0; }
            else if (*c == 'q') { unsigned long long v = strtoull(c + 1, (char**)&c, 10); long k = strtol(c + 1, (char**)&c, 10);
                long kk = k > 64 ? 64 : k; uint64_t m = kk >= 64 ? ~0ull : ((1ull << kk) - 1ull);
                if (carquet_bit_reader_read_bits64(&r, (int)k) != ((uint64_t)v & m)) ok = 0; }
            else c++;
            if (*c == '.') c++;
        }
        fprintf(h->out, " p_rt=%d", ok);
        free(back);
    }
    fputc('\n', h->out);
    h->n_lines++; st_lines[7]++; free(out);
}
/* ops: h<n> has, r remaining, p peek, s<n> skip, d<n> read, b read_byte, u16 u32 u64 f32 f64 */
static void do_c8_buf(hctx* h, const uint8_t* d, size_t dn, const char* ops) {
    uint8_t* in = bytes_exact(d, dn);
    fprintf(h->out, "c8_buf data="); h_hex(h->out, in, dn); fprintf(h->out, " ops=%s", *ops ? ops : "-"); h_call(h);
    carquet_buffer_reader_t r; carquet_buffer_reader_init_data(&r, in, dn);
    fprintf(h->out, " | obs=");
    int first = 1; const char* c = ops;
    if (!*c) fputc('-', h->out);
    while (*c) {
        if (!first) fputc('.', h->out);
        first = 0;
        if (*c == 'h') { unsigned long long n = strtoull(c + 1, (char**)&c, 10); fprintf(h->out, "h%d", (int)carquet_buffer_reader_has(&r, (size_t)n)); }
        else if (*c == 'r') { fprintf(h->out, "r%zu", carquet_buffer_reader_remaining(&r)); c++; }
        else if (*c == 'p') { fprintf(h->out, "p%zu", (size_t)(carquet_buffer_reader_peek(&r) - in)); c++; }
        else if (*c == 's') { unsigned long long n = strtoull(c + 1, (char**)&c, 10); fprintf(h->out, "s%d", carquet_buffer_reader_skip(&r, (size_t)n) == CARQUET_OK ? 0 : 1); }
        else if (*c == 'd') { unsigned long long n = strtoull(c + 1, (char**)&c, 10);
            /* destination of exactly n bytes when n is a size a caller can own; a larger n must be refused untouched */
            size_t dcap = n <= (1u << 16) ? (size_t)n : 1;
            uint8_t* dst = h_alloc(dcap);
            carquet_status_t st = carquet_buffer_reader_read(&r, dst, (size_t)n);
            fprintf(h->out, "d%d:", st == CARQUET_OK ? 0 : 1); h_hex(h->out, dst, st == CARQUET_OK ? (size_t)n : 0);
            free(dst); }
        else if (*c == 'b') { uint8_t v = 0; carquet_status_t st = carquet_buffer_reader_read_byte(&r, &v); fprintf(h->out, "v%d:%u", st == CARQUET_OK ? 0 : 1, st == CARQUET_OK ? v : 0); c++; }
        else if (!strncmp(c, "u16", 3)) { uint16_t v = 0; carquet_status_t st = carquet_buffer_reader_read_u16_le(&r, &v); fprintf(h->out, "v%d:%u", st == CARQUET_OK ? 0 : 1, st == CARQUET_OK ? v : 0); c += 3; }
        else if (!strncmp(c, "u32", 3)) { uint32_t v = 0; carquet_status_t st = carquet_buffer_reader_read_u32_le(&r, &v); fprintf(h->out, "v%d:%u", st == CARQUET_OK ? 0 : 1, st == CARQUET_OK ? v : 0); c += 3; }
        else if (!strncmp(c, "u64", 3)) { uint64_t v = 0; carquet_status_t st = carquet_buffer_reader_read_u64_le(&r, &v); fprintf(h->out, "v%d:%" PRIu64, st == CARQUET_OK ? 0 : 1, st == CARQUET_OK ? v : 0); c += 3; }
        else if (!strncmp(c, "f32", 3)) { float f = 0; carquet_status_t st = carquet_buffer_reader_read_f32_le(&r, &f); uint32_t v; memcpy(&v, &f, 4); fprintf(h->out, "v%d:%u", st == CARQUET_OK ? 0 : 1, st == CARQUET_OK ? v : 0); c += 3; }
        else if (!strncmp(c, "f64", 3)) { double f = 0; carquet_status_t st = carquet_buffer_reader_read_f64_le(&r, &f); uint64_t v; memcpy(&v, &f, 8); fprintf(h->out, "v%d:%" PRIu64, st == CARQUET_OK ? 0 : 1, st == CARQUET_OK ? v : 0); c += 3; }
        else c++;
        if (*c == '.') c++;
    }
    fprintf(h->out, " pos=%zu\n", r.pos);
    h->n_lines++; st_lines[8]++; free(in);
}

static void gen_brd_ops(hctx* h, char* s, size_t cap, int nops) {
    size_t p = 0;
    for (int i = 0; i < nops && p + 16 < cap; i++) {
        if (i) s[p++] = '.';
        static const int ks[] = {0, 1, 7, 8, 9, 24, 31, 32, 33, 40, 56, 57, 63, 64, 65, 100};
        int k = ks[h_below(h, 16)];
        switch (h_below(h, 8)) { case 0: case 1: s[p++] = 'b'; break; case 2: case 3: case 4: p += (size_t)sprintf(s + p, "r%d", k); break;
            case 5: p += (size_t)sprintf(s + p, "q%d", k); break; case 6: s[p++] = 'm'; break; default: s[p++] = 'n'; break; }
    }
    s[p] = 0;
}
static uint64_t gen_bwr_ops(hctx* h, char* s, size_t cap, int nops) {     /* returns the number of bits written */
    size_t p = 0; uint64_t total = 0;
    for (int i = 0; i < nops && p + 48 < cap; i++) {
        if (i) s[p++] = '.';
        static const int ks[] = {0, 1, 3, 7, 8, 9, 20, 24, 25, 31, 32, 33, 40, 55, 56, 63, 64, 65};
        int k = ks[h_below(h, 18)];
        uint64_t v = h_chance(h, 1, 3) ? ~0ull : h_next(h);
        switch (h_below(h, 6)) {
        case 0: p += (size_t)sprintf(s + p, "b%d", (int)h_below(h, 4)); total += 1; break;
        case 1: case 2: case 3: p += (size_t)sprintf(s + p, "w%u:%d", (uint32_t)v, k); total += (uint64_t)(k > 32 ? 32 : k); break;
        default: p += (size_t)sprintf(s + p, "q%" PRIu64 ":%d", v, k); total += (uint64_t)(k > 64 ? 64 : k); break;
        }
    }
    p += (size_t)sprintf(s + p, "%sf", p ? "." : "");
    s[p] = 0;
    return total;
}
static void gen_buf_ops(hctx* h, char* s, size_t cap, int nops, size_t size) {
    size_t p = 0;
    for (int i = 0; i < nops && p + 32 < cap; i++) {
        if (i) s[p++] = '.';
        uint64_t n;
        switch (h_below(h, 7)) { case 0: n = 0; break; case 1: n = 1; break; case 2: n = size; break; case 3: n = size + 1; break;
            case 4: n = h_below(h, size + 3); break;
            case 5: { static const uint64_t big[] = {0x7FFFFFFFull, 0x80000000ull, 0xFFFFFFFFull, 0x100000005ull, 1ull << 63, ~0ull, ~0ull - 1, ~0ull - 15};
                      n = big[h_below(h, 8)]; } break;
            default: n = ~0ull - h_below(h, size + 17); break; }   /* [2^64 - pos - 16, 2^64 - 1]: the wrap-around neighbours */
        switch (h_below(h, 12)) {
        case 0: case 1: p += (size_t)sprintf(s + p, "h%" PRIu64, n); break;
        case 2: s[p++] = 'r'; break; case 3: s[p++] = 'p'; break;
        case 4: case 5: p += (size_t)sprintf(s + p, "s%" PRIu64, n); break;
        case 6: p += (size_t)sprintf(s + p, "d%" PRIu64, n); break;
        case 7: s[p++] = 'b'; break;
        case 8: p += (size_t)sprintf(s + p, "u16"); break; case 9: p += (size_t)sprintf(s + p, "u32"); break;
        case 10: p += (size_t)sprintf(s + p, h_chance(h, 1, 2) ? "u64" : "f64"); break;
        default: p += (size_t)sprintf(s + p, "f32"); break; }
    }
    s[p] = 0;
}

static void gen_c8bits(hctx* h) {
    uint8_t* buf = h_alloc(4096);
    char ops[1200];
    long scale = h->thorough ? 10 : 1;

    /* regression witnesses: F81 (bits lost above the 64-bit accumulator; pile-up past the capacity), F82, F83, F32 */
    do_c8_bwr(h, 16, "w1048575:20.w1048575:20.w4294967295:32.f", -1);
    do_c8_bwr(h, 16, "b1.b1.b1.b1.b1.b1.b1.b1.b1.b1.b1.b1.b1.b1.b1.b1.b1.b1.b1.b1.b1.b1.b1.b1.b1.b1.b1.b1.b1.b1.b1.b1.b1.b1.b1.b1.b1.b1.b1.b1.b1.b1.b1.b1.b1.b1.b1.b1.b1.b1.b1.b1.b1.b1.b1.w4294967295:32.f", -1);
    do_c8_bwr(h, 1, "w4294967295:32.w4294967295:32.w4294967295:32.b1.b1.b1.b1.b1.b1.b1.b1.b1.f", -1);
    { uint8_t one[1] = {0xFF}; do_c8_brd(h, one, 1, "r32.n.m.b.r8.n"); }
    { uint8_t z[16] = {0}; do_c8_buf(h, z, 16, "s4.h18446744073709551614.s18446744073709551614.p.d18446744073709551614.r"); }
    { uint8_t t[4] = {1, 2, 3, 4}; do_c8_bu(h, 32, 1, t); }

    /* raw unpacking: every width, exact-size inputs: group of 8, then every count 0..33 and tails */
    for (int w = 0; w <= 32; w++) {
        for (int k = 0; k < (h->thorough ? 24 : 4); k++) { h_fill(h, buf, 32, k < 5 ? k : 0); do_c8_bu8(h, w, buf); }
        for (size_t n = 0; n <= (h->thorough ? 70u : 18u); n++) { h_fill(h, buf, 400, (int)h_below(h, 3) ? 0 : 2); do_c8_bu(h, w, n, buf); }
    }
    for (long i = 0; i < 150 * scale; i++) { int w = (int)h_below(h, 33); size_t n = (size_t)h_below(h, 100); h_fill(h, buf, 400, 0); do_c8_bu(h, w, n, buf); }

    /* bit reader on arbitrary bytes: sizes around the 8-byte refill window */
    for (long i = 0; i < 600 * scale; i++) {
        static const size_t sz[] = {0, 1, 2, 7, 8, 9, 15, 16, 17, 24};
        size_t n = h_chance(h, 2, 3) ? sz[h_below(h, 10)] : (size_t)h_below(h, 40);
        h_fill(h, buf, n, (int)h_below(h, 5));
        gen_brd_ops(h, ops, sizeof ops, 1 + (int)h_below(h, 12));
        do_c8_brd(h, buf, n, ops);
    }
    /* bit writer: capacities exact, one less, one more, 0, generous */
    for (long i = 0; i < 700 * scale; i++) {
        uint64_t total = gen_bwr_ops(h, ops, sizeof ops, (int)h_below(h, 14));
        size_t need = (size_t)((total + 7) / 8), cap;
        switch (h_below(h, 6)) { case 0: cap = need; break; case 1: cap = need ? need - 1 : 0; break; case 2: cap = need + 1; break;
            case 3: cap = 0; break; case 4: cap = need / 2; break; default: cap = need + (size_t)h_below(h, 9); break; }
        do_c8_bwr(h, cap, ops, -1);
    }
    /* bit writer = Parquet raw bit packing (LSB first): uniform width streams */
    for (long i = 0; i < 200 * scale; i++) {
        int w = i < 33 ? (int)i : (int)h_below(h, 33); int n = (int)h_below(h, 20);
        size_t p = 0;
        for (int k = 0; k < n && p + 32 < sizeof ops; k++) p += (size_t)sprintf(ops + p, "%sw%u:%d", k ? "." : "", (uint32_t)h_next(h), w);
        p += (size_t)sprintf(ops + p, "%sf", p ? "." : ""); ops[p] = 0;
        do_c8_bwr(h, ((size_t)n * (size_t)w + 7) / 8 + (size_t)h_below(h, 2), ops, w);
    }
    /* buffer cursor: arbitrary size_t arguments incl. the wrap-around neighbours */
    for (long i = 0; i < 700 * scale; i++) {
        size_t n = h_chance(h, 1, 2) ? (size_t)h_below(h, 12) : (size_t)h_below(h, 40);
        h_fill(h, buf, n, (int)h_below(h, 5));
        gen_buf_ops(h, ops, sizeof ops, 1 + (int)h_below(h, 10), n);
        do_c8_buf(h, buf, n, ops);
    }
    free(buf);
    fprintf(h->out, "#stat c8_bu8 %ld\n#stat c8_bu %ld\n#stat c8_brd %ld\n#stat c8_bwr %ld\n#stat c8_buf %ld\n",
            st_lines[4], st_lines[5], st_lines[6], st_lines[7], st_lines[8]);
}

/* =====================================================================  decompressors + allocation balance  ===== */

static int z_direct_d(const uint8_t* s, size_t n, uint8_t* d, size_t cap, size_t* on) {
    z_stream z; memset(&z, 0, sizeof z);
    if (inflateInit2(&z, 15 + 16) != Z_OK) return 0;
    const uInt mx = (uInt)-1; size_t il = n, ol = cap; int r;
    z.next_in = (Bytef*)s; z.next_out = d;
    do {
        if (z.avail_out == 0) { z.avail_out = ol > mx ? mx : (uInt)ol; ol -= z.avail_out; }
        if (z.avail_in == 0) { z.avail_in = il > mx ? mx : (uInt)il; il -= z.avail_in; }
        r = inflate(&z, Z_NO_FLUSH);
    } while (r == Z_OK);
    *on = z.total_out;
    inflateEnd(&z);
    return r == Z_STREAM_END;
}
static int zs_direct_d(const uint8_t* s, size_t n, uint8_t* d, size_t cap, size_t* on) {
    size_t r = ZSTD_decompress(d, cap, s, n);
    if (ZSTD_isError(r)) return 0;
    *on = r; return 1;
}
static long st_dec[4], st_dec_ok[4], st_dec_err[4], st_bal_lines;

/* codec: 0 snappy, 1 lz4, 2 gzip, 3 zstd */
static void do_c8_dec(hctx* h, int codec, const uint8_t* s, size_t n, size_t cap, const char* kind) {
    uint8_t* src = bytes_exact(s, n);
    uint8_t* dst = h_alloc(cap);
    fprintf(h->out, "c8_dec codec=%d cap=%zu src=", codec, cap); h_hex(h->out, src, n); fprintf(h->out, " kind=%s", kind);
    if (codec >= 2) {                                          /* the library called directly: oracle for the wrapper model */
        uint8_t* dd = h_alloc(cap); size_t dn = 0;
        int dok = codec == 2 ? z_direct_d(src, n, dd, cap, &dn) : zs_direct_d(src, n, dd, cap, &dn);
        fprintf(h->out, " dok=%d dout=", dok); h_hex(h->out, dd, dok ? dn : 0);
        free(dd);
    }
    h_call(h);
    size_t on = (size_t)-1;
    size_t before = live_bytes(); long ub0 = g_ub_reports;
    int st = codec == 0 ? carquet_snappy_decompress(src, n, dst, cap, &on) : codec == 1 ? carquet_lz4_decompress(src, n, dst, cap, &on) :
             codec == 2 ? carquet_gzip_decompress(src, n, dst, cap, &on) : carquet_zstd_decompress(src, n, dst, cap, &on);
    size_t after = live_bytes();
    int le = st != 0 || on <= cap;
    fprintf(h->out, " | st=%d n=%zu out=", st, st == 0 ? on : 0); h_hex(h->out, dst, (st == 0 && on <= cap) ? on : 0);
    fprintf(h->out, " p_bal=%d p_le=%d p_noub=%d\n", before == after, le, ub0 == g_ub_reports);
    if (before != after) st_unbal++;
    st_dec[codec]++; if (st == 0) st_dec_ok[codec]++; else st_dec_err[codec]++;
    h->n_lines++; free(src); free(dst);
}
static size_t compress_with(int codec, const uint8_t* x, size_t n, uint8_t* out, size_t cap, int level) {
    size_t on = 0; int st;
    switch (codec) { case 0: st = carquet_snappy_compress(x, n, out, cap, &on); break; case 1: st = carquet_lz4_compress(x, n, out, cap, &on); break;
        case 2: st = carquet_gzip_compress(x, n, out, cap, &on, level); break; default: st = carquet_zstd_compress(x, n, out, cap, &on, level); break; }
    return st == 0 ? on : 0;
}
static size_t bound_of(int codec, size_t n) {
    switch (codec) { case 0: return carquet_snappy_compress_bound(n); case 1: return carquet_lz4_compress_bound(n);
        case 2: return carquet_gzip_compress_bound(n); default: return carquet_zstd_compress_bound(n); }
}

carquet_status_t carquet_delta_length_encode(const carquet_byte_array_t*, int32_t, carquet_buffer_t*);
carquet_status_t carquet_delta_strings_encode(const carquet_byte_array_t*, int32_t, carquet_buffer_t*);
/* allocation balance of the other decoders of the C08 list on a (mostly failing) input */
static void do_c8_bal(hctx* h, const char* dec, long long n, int w, const uint8_t* d, size_t dn) {
    uint8_t* in = bytes_exact(d, dn);
    size_t cnt = n > 0 ? (size_t)n : 0;
    void* out = h_alloc(cnt * 16 + 16);
    uint8_t* work = h_alloc(4096);
    uint8_t dict[64]; for (int i = 0; i < 64; i++) dict[i] = (uint8_t)i;
    uint8_t* dictx = bytes_exact(dict, 64);
    fprintf(h->out, "c8_bal dec=%s n=%lld w=%d data=", dec, n, w); h_hex(h->out, in, dn); h_call(h);
    size_t used = 0; int st = 0;
    size_t before = live_bytes(); long ub0 = g_ub_reports;
    if (!strcmp(dec, "delta32")) st = carquet_delta_decode_int32(in, dn, (int32_t*)out, (int32_t)n, &used);
    else if (!strcmp(dec, "delta64")) st = carquet_delta_decode_int64(in, dn, (int64_t*)out, (int32_t)n, &used);
    else if (!strcmp(dec, "dlen")) st = carquet_delta_length_decode(in, dn, (carquet_byte_array_t*)out, (int32_t)n, &used);
    else if (!strcmp(dec, "dstr")) st = carquet_delta_strings_decode(in, dn, (carquet_byte_array_t*)out, (int32_t)n, work, 4096, &used);
    else if (!strcmp(dec, "dict32")) st = carquet_dictionary_decode_int32(dictx, 64, 16, in, dn, (int32_t*)out, (int64_t)n);
    else if (!strcmp(dec, "dict64")) st = carquet_dictionary_decode_int64(dictx, 64, 8, in, dn, (int64_t*)out, (int64_t)n);
    else if (!strcmp(dec, "pfm")) { carquet_arena_t arena; carquet_arena_init(&arena); parquet_file_metadata_t m; carquet_error_t err; memset(&err, 0, sizeof err);
        st = parquet_parse_file_metadata(in, dn, &arena, &m, &err); carquet_arena_destroy(&arena); }
    else if (!strcmp(dec, "pph")) { parquet_page_header_t p; carquet_error_t err; memset(&err, 0, sizeof err); st = parquet_parse_page_header(in, dn, &p, &used, &err); }
    size_t after = live_bytes();
    fprintf(h->out, " | st=%d p_bal=%d p_noub=%d\n", st, before == after, ub0 == g_ub_reports);
    if (before != after) st_unbal++;
    h->n_lines++; st_bal_lines++;
    free(in); free(out); free(work); free(dictx);
}

static void gen_c8codec(hctx* h) {
    enum { MAXN = 3000 };
    uint8_t* x = h_alloc(MAXN); uint8_t* c = h_alloc(MAXN * 2 + 600); uint8_t* m = h_alloc(MAXN * 2 + 700);
    long scale = h->thorough ? 8 : 1;
    /* the zstd decompression context is created once per thread and kept (zstd.c): make that one-time allocation now, so
     * that it is not mistaken for (and cannot hide) a leak of a later call */
    { uint8_t t[8] = {0}; uint8_t o[8]; size_t on; carquet_zstd_decompress(t, 8, o, 8, &on); }
    for (long i = 0; i < 420 * scale; i++) {
        int codec = (int)(i % 4);
        static const size_t szs[] = {0, 1, 2, 15, 16, 60, 61, 64, 65, 255, 256, 1000};
        size_t n = h_chance(h, 2, 3) ? szs[h_below(h, 12)] : (size_t)h_below(h, MAXN);
        h_fill(h, x, n, (int)h_below(h, 5));
        size_t cn = compress_with(codec, x, n, c, bound_of(codec, n) + 64, 1 + (int)h_below(h, 9));
        /* valid stream, capacities: exact, one less, 0, 1, one more, generous */
        size_t caps[6] = { n, n ? n - 1 : 0, 0, 1, n + 1, n + 100 };
        do_c8_dec(h, codec, c, cn, caps[h_below(h, 6)], "valid");
        do_c8_dec(h, codec, c, cn, n ? n - 1 : 0, "small");
        /* truncated at every length for small streams, at random lengths otherwise; truncated exactly before the trailer */
        if (cn <= 40) for (size_t k = 0; k < cn; k++) do_c8_dec(h, codec, c, k, n, "trunc");
        else { for (int k = 0; k < 3; k++) do_c8_dec(h, codec, c, (size_t)h_below(h, cn), n, "trunc"); if (cn > 8) { do_c8_dec(h, codec, c, cn - 8, n, "trunc"); do_c8_dec(h, codec, c, cn - 1, n, "trunc"); } }
        /* mutations: bit flip, byte smash, trailer (last 4 bytes = gzip ISIZE) enlarged beyond the capacity, extension */
        for (int k = 0; k < 3; k++) {
            memcpy(m, c, cn); size_t mn = cn;
            switch (h_below(h, 4)) { case 0: if (mn) m[h_below(h, mn)] ^= (uint8_t)(1u << h_below(h, 8)); break;
                case 1: if (mn) m[h_below(h, mn)] = (uint8_t)h_next(h); break;
                case 2: if (mn >= 4) { m[mn - 1] = 0xFF; m[mn - 2] = 0xFF; m[mn - 3] = (uint8_t)h_next(h); m[mn - 4] = (uint8_t)h_next(h); } break;
                default: { size_t e = 1 + (size_t)h_below(h, 9); while (e--) m[mn++] = (uint8_t)h_next(h); } break; }
            do_c8_dec(h, codec, m, mn, caps[h_below(h, 6)], "mut");
        }
        /* raw bytes: random, and >= 18 bytes of 0xFF / garbage whose last four bytes exceed the capacity */
        { size_t rn = (size_t)h_below(h, 64); h_fill(h, m, rn, 0); do_c8_dec(h, codec, m, rn, (size_t)h_below(h, 40), "raw"); }
        if (i % 8 < 4) { size_t rn = 18 + (size_t)h_below(h, 20); h_fill(h, m, rn, h_chance(h, 1, 2) ? 2 : 0); m[rn - 1] = 0xFF;
            if (codec == 2 && h_chance(h, 1, 2)) { m[0] = 0x1f; m[1] = 0x8b; m[2] = 8; m[3] = 0; }
            do_c8_dec(h, codec, m, rn, (size_t)h_below(h, 30), "rawtail"); }
    }
    /* allocation balance of the remaining decoders on mutated / truncated / random inputs */
    { static const char* decs[] = {"delta32", "delta64", "dlen", "dstr", "dict32", "dict64", "pfm", "pph"};
      for (long i = 0; i < 160 * scale; i++) {
          const char* d = decs[i % 8];
          size_t n = (size_t)h_below(h, 60); h_fill(h, m, n, (int)h_below(h, 3) == 0 ? 3 : 0);
          if (i % 8 < 4 && n >= 4 && h_chance(h, 2, 3)) { m[0] = 0x80; m[1] = 0x01; m[2] = 0x04; m[3] = (uint8_t)h_below(h, 40); }   /* delta header 128/4/count */
          if ((i % 8 == 4 || i % 8 == 5) && n) m[0] = (uint8_t)(h_chance(h, 1, 2) ? h_below(h, 5) : h_below(h, 256));                  /* index width byte */
          do_c8_bal(h, d, (long long)h_below(h, 40) - 1, 0, m, n);
      } }
    /* ... and on REAL encodings of many values cut short (decoders that keep their scratch on the stack for small counts and on
     * the heap for large ones: 256 / 257 values and more), the cut in the lengths section, in the data section, one byte short */
    { static const int counts[] = { 255, 256, 257, 300, 1000 };
      for (int ci = 0; ci < 5; ci++) for (int kind = 0; kind < 2; kind++) {
          int nv = counts[ci];
          carquet_byte_array_t* vals = (carquet_byte_array_t*)h_alloc((size_t)nv * sizeof *vals);
          uint8_t* pool = h_alloc((size_t)nv * 4 + 8); h_fill(h, pool, (size_t)nv * 4 + 8, 0);
          for (int i = 0; i < nv; i++) { vals[i].data = pool + (size_t)i * 3; vals[i].length = (int32_t)(1 + (i * 7 + ci) % 4); }
          carquet_buffer_t eb; carquet_buffer_init(&eb);
          carquet_status_t es = kind ? carquet_delta_strings_encode(vals, nv, &eb) : carquet_delta_length_encode(vals, nv, &eb);
          if (es == CARQUET_OK && eb.size > 8) {
              size_t cuts[5] = { eb.size - 1, eb.size - 2, eb.size / 2, eb.size - (size_t)nv / 2, 6 };
              for (int q = 0; q < 5; q++) if (cuts[q] < eb.size) do_c8_bal(h, kind ? "dstr" : "dlen", nv, 0, eb.data, cuts[q]);
              do_c8_bal(h, kind ? "dstr" : "dlen", nv, 0, eb.data, eb.size);
          }
          carquet_buffer_destroy(&eb); free(vals); free(pool);
      } }
    free(x); free(c); free(m);
    static const char* names[] = {"snappy", "lz4", "gzip", "zstd"};
    for (int k = 0; k < 4; k++) fprintf(h->out, "#stat dec_%s %ld\n#stat dec_%s_ok %ld\n#stat dec_%s_error %ld\n", names[k], st_dec[k], names[k], st_dec_ok[k], names[k], st_dec_err[k]);
    fprintf(h->out, "#stat c8_bal %ld\n#stat unbalanced %ld\n", st_bal_lines, st_unbal);
}

/* =====================================================================  Thrift parsers on hostile binary lengths  ===== */

typedef struct { uint8_t b[512]; size_t n; } tbuf;
static void tb(tbuf* t, uint8_t v) { if (t->n < sizeof t->b) t->b[t->n++] = v; }
static void tvar(tbuf* t, uint64_t v) { while (v >= 0x80) { tb(t, (uint8_t)(v | 0x80)); v >>= 7; } tb(t, (uint8_t)v); }
/* a binary value: its length varint (hostile when this is the chosen site) and payload; returns 1 if the hostile site was written */
static int tbin(tbuf* t, const char* s, int site, int hostile_site, uint64_t hostile_len, int payload) {
    if (site == hostile_site) { tvar(t, hostile_len); for (int i = 0; i < payload; i++) tb(t, (uint8_t)('a' + i)); return 1; }
    size_t n = strlen(s); tvar(t, n); for (size_t i = 0; i < n; i++) tb(t, (uint8_t)s[i]); return 0;
}
/* FileMetaData with binary sites 0 root name, 1 leaf name, 2 unknown binary inside a SchemaElement (skipped), 3 kv key, 4 kv value,
 * 5 created_by, 6 unknown top-level binary (skipped); when `stop` the input ends right after the hostile value */
static void build_fm(tbuf* t, int hs, uint64_t hl, int payload, int stop) {
    t->n = 0;
    tb(t, 0x15); tb(t, 0x02);                                      /* 1: version */
    tb(t, 0x19); tb(t, 0x2C);                                      /* 2: schema list<struct>, 2 elements */
    tb(t, 0x48); if (tbin(t, "r", 0, hs, hl, payload) && stop) return;          /* root: 4 name */
    tb(t, 0x15); tb(t, 0x02); tb(t, 0x00);                         /*       5 num_children = 1 */
    tb(t, 0x15); tb(t, 0x02); tb(t, 0x25); tb(t, 0x00);            /* leaf: 1 type INT32, 3 repetition REQUIRED */
    tb(t, 0x18); if (tbin(t, "x", 1, hs, hl, payload) && stop) return;          /*       4 name */
    tb(t, 0x08); tb(t, 0x3C); if (tbin(t, "zz", 2, hs, hl, payload) && stop) return;   /* unknown field id 30, binary: skipped */
    tb(t, 0x00);
    tb(t, 0x16); tb(t, 0x00);                                      /* 3: num_rows */
    tb(t, 0x19); tb(t, 0x0C);                                      /* 4: row_groups = [] */
    tb(t, 0x19); tb(t, 0x1C);                                      /* 5: key_value_metadata, 1 element */
    tb(t, 0x18); if (tbin(t, "k", 3, hs, hl, payload) && stop) return;
    tb(t, 0x18); if (tbin(t, "v", 4, hs, hl, payload) && stop) return;
    tb(t, 0x00);
    tb(t, 0x18); if (tbin(t, "me", 5, hs, hl, payload) && stop) return;         /* 6: created_by */
    tb(t, 0x08); tb(t, 0x28); if (tbin(t, "u", 6, hs, hl, payload) && stop) return;    /* unknown field id 20, binary: skipped */
    tb(t, 0x00);
}
/* PageHeader: sites 0 statistics.max, 1 statistics.min, 2 statistics.max_value, 3 statistics.min_value, 4 unknown binary in the
 * data page header, 5 unknown top-level binary */
static void build_ph(tbuf* t, int hs, uint64_t hl, int payload, int stop) {
    t->n = 0;
    tb(t, 0x15); tb(t, 0x00);                                      /* 1: type DATA_PAGE */
    tb(t, 0x15); tb(t, 0x10); tb(t, 0x15); tb(t, 0x10);            /* 2, 3: sizes */
    tb(t, 0x2C);                                                   /* 5: data_page_header */
    tb(t, 0x15); tb(t, 0x02); tb(t, 0x15); tb(t, 0x00); tb(t, 0x15); tb(t, 0x06); tb(t, 0x15); tb(t, 0x06);   /* num_values, encodings */
    tb(t, 0x1C);                                                   /*   5: statistics */
    tb(t, 0x18); if (tbin(t, "mx", 0, hs, hl, payload) && stop) return;
    tb(t, 0x18); if (tbin(t, "mn", 1, hs, hl, payload) && stop) return;
    tb(t, 0x16); tb(t, 0x00);
    tb(t, 0x28); if (tbin(t, "MX", 2, hs, hl, payload) && stop) return;
    tb(t, 0x18); if (tbin(t, "MN", 3, hs, hl, payload) && stop) return;
    tb(t, 0x00);
    tb(t, 0x08); tb(t, 0x28); if (tbin(t, "u", 4, hs, hl, payload) && stop) return;    /* unknown id 20 in the data page header */
    tb(t, 0x00);
    tb(t, 0x08); tb(t, 0x3C); if (tbin(t, "w", 5, hs, hl, payload) && stop) return;    /* unknown id 30 at top level */
    tb(t, 0x00);
}
static void on_alarm_c8(int s) { (void)s; _exit(77); }
static long st_th, st_th_err, st_th_ok, st_th_abn;
static void do_c8_th(hctx* h, int is_pph, const uint8_t* b, size_t n, int site) {
    uint8_t* d = bytes_exact(b, n);
    fprintf(h->out, "c8_th kind=%s b=", is_pph ? "pph" : "pfm"); h_hex(h->out, d, n); fprintf(h->out, " site=%d", site); h_call(h);
    int p[2]; if (pipe(p) != 0) { free(d); return; }
    fflush(NULL);
    pid_t pid = fork();
    if (pid == 0) {
        close(p[0]); h_cpu_alarm(5, on_alarm_c8);
        long long res[3] = {0, 0, 0};
        size_t before = live_bytes();
        if (is_pph) { parquet_page_header_t ph; size_t used = 0; carquet_error_t err; memset(&err, 0, sizeof err);
            res[0] = parquet_parse_page_header(d, n, &ph, &used, &err); res[1] = (long long)used; }
        else { carquet_arena_t arena; carquet_arena_init(&arena); parquet_file_metadata_t m; carquet_error_t err; memset(&err, 0, sizeof err);
            res[0] = parquet_parse_file_metadata(d, n, &arena, &m, &err); carquet_arena_destroy(&arena); }
        res[2] = before == live_bytes();
        if (write(p[1], res, sizeof res) < 0) {}
        _exit(0);
    }
    close(p[1]);
    long long res[3] = {-1, 0, 0}; ssize_t got = read(p[0], res, sizeof res); close(p[0]);
    int stw = 0; waitpid(pid, &stw, 0);
    int rc = WIFEXITED(stw) ? WEXITSTATUS(stw) : 1000 + WTERMSIG(stw);
    int term = rc == 0 && got == (ssize_t)sizeof res;
    fprintf(h->out, " | st=%lld used=%lld rc=%d p_term=%d p_bal=%d\n", term ? res[0] : -1, term ? res[1] : 0, rc, term, term ? (int)res[2] : 1);
    st_th++; if (!term) st_th_abn++; else if (res[0] == 0) st_th_ok++; else st_th_err++;
    h->n_lines++; free(d);
}
static void gen_c8thrift(hctx* h) {
    static const uint64_t lens[] = {0x7FFFFFFFull, 0x80000000ull, 0xFFFFFFFFull, 0x100000005ull, 1ull << 63, ~0ull, ~0ull - 1, ~0ull - 7, ~0ull - 15,
                                    0x7FFFFFFFFFFFFFFFull, 0xFFFFFFFF00000000ull, 3, 200};
    tbuf t;
    for (int is_pph = 0; is_pph < 2; is_pph++) {
        int nsites = is_pph ? 6 : 7;
        /* the unmodified structures first (must parse) */
        if (is_pph) build_ph(&t, -1, 0, 0, 0); else build_fm(&t, -1, 0, 0, 0);
        do_c8_th(h, is_pph, t.b, t.n, -1);
        for (int site = 0; site < nsites; site++) {
            for (size_t k = 0; k < sizeof lens / sizeof lens[0]; k++) {
                if (!h->thorough && k % 2 == (size_t)(site % 2) && k > 8) continue;
                for (int stop = 0; stop < 2; stop++) {
                    int payload = stop ? (int)h_below(h, 3) : (int)h_below(h, 4);
                    if (is_pph) build_ph(&t, site, lens[k], payload, stop); else build_fm(&t, site, lens[k], payload, stop);
                    do_c8_th(h, is_pph, t.b, t.n, site);
                }
            }
            /* lengths in [2^64 - pos - 16, 2^64 - 1] for the position of this site: pos + n wraps to a value inside the buffer */
            if (is_pph) build_ph(&t, site, 1, 0, 1); else build_fm(&t, site, 1, 0, 1);
            size_t pos = t.n;                                       /* position just after a one-byte length */
            for (int k = 0; k < (h->thorough ? 40 : 6); k++) {
                uint64_t L = ~0ull - (uint64_t)h_below(h, pos + 17);
                int stop = (int)h_below(h, 2);
                if (is_pph) build_ph(&t, site, L, (int)h_below(h, 3), stop); else build_fm(&t, site, L, (int)h_below(h, 3), stop);
                do_c8_th(h, is_pph, t.b, t.n, site);
            }
        }
    }
    fprintf(h->out, "#stat c8_th %ld\n#stat c8_th_error %ld\n#stat c8_th_ok %ld\n#stat c8_th_abnormal_child %ld\n", st_th, st_th_err, st_th_ok, st_th_abn);
}

/* =====================================================================  replay  ===== */
static int replay_c8(hctx* h, const h_line* l) {
    const char* op = l->op;
    if (strncmp(op, "c8_", 3)) return 0;
    int w = (int)h_ll(h_in(l, "w"));
    const char* kind = h_in(l, "kind") ? h_in(l, "kind") : "replay";
    const char* o = h_in(l, "ops"); if (!o || !strcmp(o, "-")) o = "";
    size_t n = 0; uint8_t* d = NULL;
    if (h_in(l, "data")) d = h_unhex(h_in(l, "data"), &n);
    int done = 1;
    if (!strcmp(op, "c8_rle")) do_c8_rle(h, w, d, n, o, kind);
    else if (!strcmp(op, "c8_all")) do_c8_all(h, w, h_ll(h_in(l, "n")), d, n, kind);
    else if (!strcmp(op, "c8_lev")) do_c8_lev(h, w, h_ll(h_in(l, "n")), d, n, kind);
    else if (!strcmp(op, "c8_pfx")) do_c8_pfx(h, w, h_ll(h_in(l, "n")), d, n, kind);
    else if (!strcmp(op, "c8_bu8")) { uint8_t in[32] = {0}; if (d) memcpy(in, d, n < 32 ? n : 32); do_c8_bu8(h, w, in); }
    else if (!strcmp(op, "c8_bu")) { size_t cnt = (size_t)h_ll(h_in(l, "n")); size_t ps = carquet_packed_size(cnt, w);
        uint8_t* in = h_alloc(ps + 1); memset(in, 0, ps + 1); if (d) memcpy(in, d, n < ps ? n : ps); do_c8_bu(h, w, cnt, in); free(in); }
    else if (!strcmp(op, "c8_brd")) do_c8_brd(h, d, n, o);
    else if (!strcmp(op, "c8_bwr")) do_c8_bwr(h, (size_t)h_ll(h_in(l, "cap")), o, h_in(l, "uw") ? (int)h_ll(h_in(l, "uw")) : -1);
    else if (!strcmp(op, "c8_buf")) do_c8_buf(h, d, n, o);
    else if (!strcmp(op, "c8_dec")) { size_t sn; uint8_t* s = h_unhex(h_in(l, "src"), &sn);
        { uint8_t t[8] = {0}; uint8_t oo[8]; size_t on; carquet_zstd_decompress(t, 8, oo, 8, &on); }
        do_c8_dec(h, (int)h_ll(h_in(l, "codec")), s, sn, (size_t)h_ll(h_in(l, "cap")), kind); free(s); }
    else if (!strcmp(op, "c8_bal")) do_c8_bal(h, h_in(l, "dec"), h_ll(h_in(l, "n")), w, d, n);
    else if (!strcmp(op, "c8_th")) { size_t bn; uint8_t* b = h_unhex(h_in(l, "b"), &bn);
        do_c8_th(h, !strcmp(h_in(l, "kind"), "pph"), b, bn, (int)h_ll(h_in(l, "site"))); free(b); }
    else done = 0;
    free(d);
    return done;
}

const h_component comp_c8rle = { "c8rle", gen_c8rle, replay_c8 };
const h_component comp_c8bits = { "c8bits", gen_c8bits, NULL };
const h_component comp_c8codec = { "c8codec", gen_c8codec, NULL };
const h_component comp_c8thrift = { "c8thrift", gen_c8thrift, NULL };
