/* part of ops_stats.c: page writer running statistics, statistics_compare / range_overlaps,
 * column index page_might_match */

/* ======================= page writer ======================= */
typedef struct { int n; uint8_t* dense; int dense_len; int has_defs; int16_t* defs; } pw_batch;
typedef struct { int t, maxdef; pw_batch* b; int nb; } pw_case;

static void pw_print_in(hctx* h, const pw_case* c) {
    fprintf(h->out, "pw t=%d maxdef=%d batches=", c->t, c->maxdef);
    if (c->nb == 0) fputc('-', h->out);
    for (int i = 0; i < c->nb; i++) {
        const pw_batch* b = &c->b[i];
        if (i) fputc(';', h->out);
        fprintf(h->out, "%d:", b->n); h_hex(h->out, b->dense, (size_t)b->dense_len); fputc(':', h->out);
        if (!b->has_defs) fputc('n', h->out);
        else { if (b->n == 0) fputc('e', h->out); for (int k = 0; k < b->n; k++) fputc('0' + b->defs[k], h->out); }
    }
}
static void pw_exec(hctx* h, void* arg) {
    const pw_case* c = (const pw_case*)arg;
    int w = type_width(c->t, 4); if (w < 0) w = 4;
    carquet_page_writer_t* pw = carquet_page_writer_create((carquet_physical_type_t)c->t, CARQUET_ENCODING_PLAIN,
                                                           CARQUET_COMPRESSION_UNCOMPRESSED, (int16_t)c->maxdef, 0, 4);
    int total = 1; for (int i = 0; i < c->nb; i++) total += c->b[i].n;
    val_t* rows = (val_t*)h_alloc(sizeof(val_t) * (size_t)total); int nrows = 0; long long nulls = 0;
    int* sts = (int*)h_alloc(sizeof(int) * (size_t)(c->nb + 1));
    carquet_byte_array_t* arr = NULL;
    for (int i = 0; i < c->nb; i++) {
        const pw_batch* b = &c->b[i];
        const void* vals = b->dense;
        if (c->t == T_BA) {      /* dense holds 4-byte strings */
            int cnt = b->dense_len / 4;
            arr = (carquet_byte_array_t*)h_alloc(sizeof(carquet_byte_array_t) * (size_t)(cnt ? cnt : 1));
            for (int k = 0; k < cnt; k++) { arr[k].data = b->dense + 4 * k; arr[k].length = 4; }
            vals = arr;
        }
        /* cases with several batches: statistics are switched off before the first batch and on again before the last one.
         * Whether a page header carries statistics is decided when the page is finished; the bounds must cover the values
         * of EVERY batch of the page, also those added while the flag was off. */
        if (c->nb >= 2 && i == 0) carquet_page_writer_set_statistics(pw, false);
        if (c->nb >= 2 && i == c->nb - 1) carquet_page_writer_set_statistics(pw, true);
        sts[i] = (int)carquet_page_writer_add_values(pw, vals, b->n, b->has_defs ? b->defs : NULL, NULL);
        free(arr); arr = NULL;
        int k = 0;
        for (int r = 0; r < b->n; r++) {
            int present = !(b->has_defs && c->maxdef > 0) || b->defs[r] == c->maxdef;
            if (present) { val_t v; v.p = b->dense + (size_t)k * w; v.len = w; v.null = 0; rows[nrows++] = v; k++; }
            else { rows[nrows++] = v_null(); nulls++; }
        }
    }
    const uint8_t *mn = NULL, *mx = NULL; size_t sz = 0; int64_t nc = 0;
    bool has = carquet_page_writer_get_statistics(pw, &mn, &mx, &sz, &nc);
    val_t vmn = v_null(), vmx = v_null();
    if (has) { vmn.p = (uint8_t*)mn; vmn.len = (int)sz; vmn.null = 0; vmx.p = (uint8_t*)mx; vmx.len = (int)sz; vmx.null = 0; }
    int ok = !has || (true_bounds(c->t, &vmn, &vmx, rows, nrows) && nc == nulls);
    fprintf(h->out, " | st=");
    if (c->nb == 0) fputc('-', h->out);
    for (int i = 0; i < c->nb; i++) fprintf(h->out, "%s%d", i ? "," : "", sts[i]);
    if (has) n_pw_has++; else n_pw_none++;
    fprintf(h->out, " has=%d min=", (int)has); h_hex(h->out, vmn.p, (size_t)vmn.len);
    fprintf(h->out, " max="); h_hex(h->out, vmx.p, (size_t)vmx.len);
    fprintf(h->out, " sz=%d nc=%lld p_bounds=%d\n", (int)sz, (long long)nc, ok);
    free(rows); free(sts);
    carquet_page_writer_destroy(pw);
}
static void pw_free(pw_case* c) { for (int i = 0; i < c->nb; i++) { free(c->b[i].dense); free(c->b[i].defs); } free(c->b); }
static void do_pw(hctx* h, pw_case* c) { pw_print_in(h, c); h_call(h); pw_exec(h, c); h->n_lines++; }

static void gen_pw_random(hctx* h, int t) {
    pw_case c; c.t = t; c.maxdef = (int)h_below(h, 3); c.nb = 1 + (int)h_below(h, 3);
    c.b = (pw_batch*)h_alloc(sizeof(pw_batch) * (size_t)c.nb);
    int w = type_width(t, 4); if (w < 0) w = 4;
    for (int i = 0; i < c.nb; i++) {
        pw_batch* b = &c.b[i]; memset(b, 0, sizeof *b);
        b->n = (int)h_below(h, 6);
        b->has_defs = h_chance(h, 2, 3);
        b->defs = (int16_t*)h_alloc(sizeof(int16_t) * (size_t)(b->n ? b->n : 1));
        int nn = 0;
        for (int k = 0; k < b->n; k++) {
            b->defs[k] = (int16_t)h_below(h, (uint64_t)c.maxdef + 1);
            if (h_chance(h, 1, 2)) b->defs[k] = (int16_t)c.maxdef;
            if (!(b->has_defs && c.maxdef > 0) || b->defs[k] == c.maxdef) nn++;
        }
        b->dense_len = nn * w; b->dense = h_alloc((size_t)b->dense_len);
        for (int k = 0; k < nn; k++) { val_t v = (t == T_BA) ? gen_bytes(h, 4) : gen_val(h, t, 4, 1);
                                       memcpy(b->dense + (size_t)k * w, v.p, (size_t)w); v_free(&v); }
    }
    do_pw(h, &c); pw_free(&c);
}
static void gen_pw_bits(hctx* h, int t, const uint64_t* bits, int n) {
    pw_case c; c.t = t; c.maxdef = 0; c.nb = 1; c.b = (pw_batch*)h_alloc(sizeof(pw_batch));
    int w = type_width(t, 0);
    pw_batch* b = &c.b[0]; memset(b, 0, sizeof *b); b->n = n; b->has_defs = 0;
    b->defs = (int16_t*)h_alloc(2);
    b->dense_len = n * w; b->dense = h_alloc((size_t)b->dense_len);
    for (int k = 0; k < n; k++) memcpy(b->dense + (size_t)k * w, &bits[k], (size_t)w);
    do_pw(h, &c); pw_free(&c);
}

/* ======================= statistics_compare / range_overlaps ======================= */
/* rows with true (possibly loosened, possibly one-sided) bounds */
typedef struct { int t, tl; val_t* rows; int n; val_t smin, smax; } bounded;
static void gen_bounded(hctx* h, bounded* b, int t, int tl) {
    b->t = t; b->tl = tl; b->n = (int)h_below(h, 6);
    b->rows = (val_t*)h_alloc(sizeof(val_t) * (size_t)(b->n + 1));
    for (int i = 0; i < b->n; i++) b->rows[i] = h_chance(h, 1, 7) ? v_null() : gen_val(h, t, tl, 1);
    int imin, imax; stats_minmax(t, b->rows, b->n, &imin, &imax);
    b->smin = v_null(); b->smax = v_null();
    if (imin >= 0) {
        if (!h_chance(h, 1, 6)) b->smin = h_chance(h, 1, 3) ? gen_looser(h, t, tl, b->rows[imin], 1) : v_dup(b->rows[imin]);
        if (!h_chance(h, 1, 6)) b->smax = h_chance(h, 1, 3) ? gen_looser(h, t, tl, b->rows[imax], 0) : v_dup(b->rows[imax]);
    } else if (h_chance(h, 1, 2)) { b->smin = gen_val(h, t, tl, 1); b->smax = v_dup(b->smin); }
}
static void bounded_free(bounded* b) { for (int i = 0; i < b->n; i++) v_free(&b->rows[i]); free(b->rows); v_free(&b->smin); v_free(&b->smax); }
/* a probe at, between or beyond the bounds */
static val_t gen_probe(hctx* h, const bounded* b) {
    int k = (int)h_below(h, 6);
    if (k == 0 && !b->smin.null) return v_dup(b->smin);
    if (k == 1 && !b->smax.null) return v_dup(b->smax);
    if (k == 2 && b->n > 0) { val_t r = b->rows[h_below(h, (uint64_t)b->n)]; if (!r.null) return v_dup(r); }
    return gen_val(h, b->t, b->tl, 1);
}
static void fill_pstats(parquet_statistics_t* st, const val_t* mn, const val_t* mx) {
    memset(st, 0, sizeof *st);
    if (!mn->null) { st->min_value = mn->p; st->min_value_len = mn->len; }
    if (!mx->null) { st->max_value = mx->p; st->max_value_len = mx->len; }
}
static void do_scmp(hctx* h, const bounded* b, val_t v) {
    fprintf(h->out, "scmp t=%d smin=", b->t); opt_print(h->out, &b->smin);
    fprintf(h->out, " smax="); opt_print(h->out, &b->smax);
    fprintf(h->out, " v="); v_print(h->out, v);
    fprintf(h->out, " data="); vs_print(h->out, b->rows, b->n); h_call(h);
    parquet_statistics_t st; fill_pstats(&st, &b->smin, &b->smax);
    int r = 99; int s = (int)carquet_statistics_compare(&st, (carquet_physical_type_t)b->t, v.p, (size_t)v.len, &r);
    int any = 0; for (int i = 0; i < b->n; i++) any |= sat_v(b->t, 0, b->rows[i], v);
    int sound = !true_bounds(b->t, &b->smin, &b->smax, b->rows, b->n) || !any || r == 0;
    if (r >= -1 && r <= 1) n_scmp[r + 1]++;
    fprintf(h->out, " | st=%d r=%d p_sound=%d\n", s, r, sound);
    h->n_lines++;
}
static void do_sovl(hctx* h, const bounded* b, const val_t* qmin, const val_t* qmax) {
    fprintf(h->out, "sovl t=%d smin=", b->t); opt_print(h->out, &b->smin);
    fprintf(h->out, " smax="); opt_print(h->out, &b->smax);
    fprintf(h->out, " qmin="); opt_print(h->out, qmin);
    fprintf(h->out, " qmax="); opt_print(h->out, qmax);
    fprintf(h->out, " data="); vs_print(h->out, b->rows, b->n); h_call(h);
    parquet_statistics_t st; fill_pstats(&st, &b->smin, &b->smax);
    /* the exactness flags of the bounds: absent, or present and FALSE (which promises nothing: such a bound may still be
     * attained) - chosen from the line's own content, so a replay sets the same */
    { int ex = (int)((unsigned)(b->n * 5 + b->smin.len + 3 * b->smax.len + (qmin->null ? 1 : 0)) % 4);
      if (ex & 1) { st.has_is_min_value_exact = true; st.is_min_value_exact = false; }
      if (ex & 2) { st.has_is_max_value_exact = true; st.is_max_value_exact = false; } }
    size_t vl = !qmin->null ? (size_t)qmin->len : !qmax->null ? (size_t)qmax->len : 0;
    bool ov = true;
    int s = (int)carquet_statistics_range_overlaps(&st, (carquet_physical_type_t)b->t, qmin->null ? NULL : qmin->p,
                                                   qmax->null ? NULL : qmax->p, vl, &ov);
    int any = 0; for (int i = 0; i < b->n; i++) any |= in_range(b->t, qmin, qmax, b->rows[i]);
    int sound = !true_bounds(b->t, &b->smin, &b->smax, b->rows, b->n) || !any || ov;
    n_ovl[ov ? 1 : 0]++;
    fprintf(h->out, " | st=%d ov=%d p_sound=%d\n", s, (int)ov, sound);
    h->n_lines++;
}
/* query bounds: for the byte types both have the same length (the API has one value_len) */
static void gen_query(hctx* h, const bounded* b, val_t* qmin, val_t* qmax) {
    *qmin = h_chance(h, 1, 5) ? v_null() : gen_probe(h, b);
    *qmax = h_chance(h, 1, 5) ? v_null() : gen_probe(h, b);
    if ((b->t == T_BA || b->t == T_FLBA) && !qmin->null && !qmax->null && qmin->len != qmax->len) {
        int len = qmin->len; val_t q = gen_bytes(h, len);
        if (qmax->len >= len) memcpy(q.p, qmax->p, (size_t)len); else memcpy(q.p, qmax->p, (size_t)qmax->len);
        v_free(qmax); *qmax = q;
    }
}
static void gen_helpers(hctx* h, int t, int tl) {
    bounded b; gen_bounded(h, &b, t, tl);
    val_t v = gen_probe(h, &b); do_scmp(h, &b, v); v_free(&v);
    val_t qmin, qmax; gen_query(h, &b, &qmin, &qmax);
    do_sovl(h, &b, &qmin, &qmax);
    v_free(&qmin); v_free(&qmax);
    bounded_free(&b);
}

/* ======================= column index page_might_match ======================= */
typedef struct { long long nc; val_t mn, mx; int isnull; } pm_page;
static void do_pmm(hctx* h, int t, int tl, const pm_page* pg, int npg, int idx, const val_t* qmin, const val_t* qmax,
                   const val_t* rows, int nrows) {
    fprintf(h->out, "pmm t=%d tl=%d pages=", t, tl);
    if (npg == 0) fputc('-', h->out);
    for (int i = 0; i < npg; i++) {
        if (i) fputc(';', h->out);
        fprintf(h->out, "%lld:", pg[i].nc); opt_print(h->out, &pg[i].mn); fputc(':', h->out);
        opt_print(h->out, &pg[i].mx); fprintf(h->out, ":%d", pg[i].isnull);
    }
    fprintf(h->out, " idx=%d qmin=", idx); opt_print(h->out, qmin);
    fprintf(h->out, " qmax="); opt_print(h->out, qmax);
    fprintf(h->out, " data="); vs_print(h->out, rows, nrows); h_call(h);
    carquet_column_index_builder_t* ci = carquet_column_index_builder_create((carquet_physical_type_t)t, tl);
    for (int i = 0; i < npg; i++)
        (void)carquet_column_index_add_page(ci, pg[i].nc, pg[i].mn.null ? NULL : pg[i].mn.p, pg[i].mn.len,
                                            pg[i].mx.null ? NULL : pg[i].mx.p, pg[i].mx.len, pg[i].isnull != 0);
    int32_t vl = !qmin->null ? qmin->len : !qmax->null ? qmax->len : 0;
    bool mm = true;
    int s = (int)carquet_column_index_page_might_match(ci, idx, qmin->null ? NULL : qmin->p, qmax->null ? NULL : qmax->p, vl, &mm);
    int sound = 1;
    if (s == 0 && idx >= 0 && idx < npg) {
        int any = 0; for (int i = 0; i < nrows; i++) any |= in_range(t, qmin, qmax, rows[i]);
        /* a stored bound of the wrong size carries no information (and cannot be read as a typed value) */
        int w = (t == T_BA || t == T_FLBA) ? -1 : type_width(t, tl);
        const val_t* lo = (w > 0 && pg[idx].mn.len != w) ? NULL : &pg[idx].mn;
        const val_t* hi = (w > 0 && pg[idx].mx.len != w) ? NULL : &pg[idx].mx;
        sound = !true_bounds(t, lo, hi, rows, nrows) || !any || mm;
    }
    if (s) n_pmm_err++; else n_pmm[mm ? 1 : 0]++;
    fprintf(h->out, " | st=%d mm=%d p_sound=%d\n", s, (int)mm, sound);
    carquet_column_index_builder_destroy(ci);
    h->n_lines++;
}
static void gen_pmm(hctx* h, int t, int tl) {
    int npg = 1 + (int)h_below(h, 3);
    pm_page pg[4]; bounded bs[4];
    for (int i = 0; i < npg; i++) gen_bounded(h, &bs[i], t, tl);
    int idx = h_chance(h, 1, 10) ? (int)h_below(h, 5) - 1 : (int)h_below(h, (uint64_t)npg);
    int use = idx >= 0 && idx < npg ? idx : 0;
    val_t qmin, qmax; gen_query(h, &bs[use], &qmin, &qmax);
    for (int i = 0; i < npg; i++) {
        int allnull = 1; for (int k = 0; k < bs[i].n; k++) allnull &= bs[i].rows[k].null;
        pg[i].isnull = allnull && h_chance(h, 2, 3);
        pg[i].nc = 0; for (int k = 0; k < bs[i].n; k++) pg[i].nc += bs[i].rows[k].null;
        /* now and then a stored bound of the wrong size for a fixed-width type: it must be ignored */
        if (type_width(t, tl) > 0 && t != T_FLBA && !bs[i].smin.null && h_chance(h, 1, 10)) {
            v_free(&bs[i].smin); bs[i].smin = gen_bytes(h, 1 + (int)h_below(h, 3) + (t == T_BOOL ? 1 : 0)); }
        pg[i].mn = bs[i].smin; pg[i].mx = bs[i].smax;
    }
    do_pmm(h, t, tl, pg, npg, idx, &qmin, &qmax, bs[use].rows, idx >= 0 && idx < npg ? bs[use].n : 0);
    v_free(&qmin); v_free(&qmax);
    for (int i = 0; i < npg; i++) bounded_free(&bs[i]);
}
