/* C09 / C10 / C08 (compression part): the hand-written LZ4 block codec and the gzip / zstd
 * wrappers, called on exact-size heap buffers.
 *
 *   lz4_c  src=x.. cap=N | st=S n=LEN out=x.. bound=B p_rt=0/1 [p_ref=0/1] [triv=1]
 *       carquet_lz4_compress into a buffer of exactly `cap` bytes.  p_rt: carquet's own decompressor
 *       gives src back in a buffer of exactly |src| bytes;  p_ref: liblz4's LZ4_decompress_safe
 *       (dlopen'ed, independent reference decoder) gives src back.
 *   lz4_d / lz4_dm  src=x.. cap=N [exp=x..] | st=S out=x.. [p_exp=0/1]      (lz4_dm: memory-safety only, C08)
 *       carquet_lz4_decompress into a buffer of exactly `cap` bytes; `exp` = what the independent
 *       C-side encoder (or liblz4) encoded, when the block was produced by one.
 *   gz_c / zs_c  lvl=L src=x.. cap=N dl=DL dok=0/1 dout=x.. | st=S out=x.. p_rt=.. p_lib=..
 *       wrapper compress; dl/dok/dout = zlib / libzstd called directly at level DL with the same
 *       capacity (the "library oracle" the Lean wrapper model is instantiated with);
 *       p_lib: the library called directly decodes the wrapper's output to src.
 *   gz_d / zs_d  src=x.. cap=N dok=0/1 dout=x.. | st=S out=x..
 *   gz_big n=N cap=C lvl=L dl=.. dok=.. dout=.. tok=.. tout=.. | st=S out=x.. decoded=K p_whole=0/1
 *       source of N >= 4 GiB zero bytes (lazily mapped), small destination: p_whole = "an OK
 *       result decodes to all N bytes".
 */
#include "common.h"
#include <zlib.h>
#include <zstd.h>
#include <dlfcn.h>
#include <sys/mman.h>

int carquet_lz4_decompress(const uint8_t*, size_t, uint8_t*, size_t, size_t*);
int carquet_lz4_compress(const uint8_t*, size_t, uint8_t*, size_t, size_t*);
size_t carquet_lz4_compress_bound(size_t);
int carquet_gzip_decompress(const uint8_t*, size_t, uint8_t*, size_t, size_t*);
int carquet_gzip_compress(const uint8_t*, size_t, uint8_t*, size_t, size_t*, int);
size_t carquet_gzip_compress_bound(size_t);
int carquet_zstd_decompress(const uint8_t*, size_t, uint8_t*, size_t, size_t*);
int carquet_zstd_compress(const uint8_t*, size_t, uint8_t*, size_t, size_t*, int);
size_t carquet_zstd_compress_bound(size_t);

/* ---------- optional reference implementation (liblz4), never linked ---------- */
typedef int (*lz4_dec_fn)(const char*, char*, int, int);
typedef int (*lz4_cmp_fn)(const char*, char*, int, int);
typedef int (*lz4_hc_fn)(const char*, char*, int, int, int);
static lz4_dec_fn ref_dec; static lz4_cmp_fn ref_cmp; static lz4_hc_fn ref_hc; static int ref_tried;
static void ref_init(void) {
    if (ref_tried) return;
    ref_tried = 1;
    void* so = dlopen("liblz4.so.1", RTLD_NOW | RTLD_LOCAL);
    if (!so) return;
    ref_dec = (lz4_dec_fn)dlsym(so, "LZ4_decompress_safe");
    ref_cmp = (lz4_cmp_fn)dlsym(so, "LZ4_compress_default");
    ref_hc = (lz4_hc_fn)dlsym(so, "LZ4_compress_HC");
}

/* ---------- statistics ---------- */
static long s_c_ok, s_c_refused, s_c_match, s_c_big, s_d_ok, s_d_err, s_d_gram, s_d_mut, s_d_trunc,
            s_d_rand, s_d_ref, s_w_ok, s_w_err;

/* ---------- lz4 compress ---------- */
static void do_lz4_c(hctx* h, const uint8_t* x, size_t n, size_t cap) {
    uint8_t* src = h_alloc(n); memcpy(src, x, n);
    uint8_t* dst = h_alloc(cap);
    fprintf(h->out, "lz4_c src="); h_hex(h->out, src, n); fprintf(h->out, " cap=%zu", cap); h_call(h);
    size_t on = 0;
    int st = carquet_lz4_compress(src, n, dst, cap, &on);
    size_t bound = carquet_lz4_compress_bound(n);
    fprintf(h->out, " | st=%d bound=%zu", st, bound);
    if (st == 0) {
        if (on > cap) { fprintf(h->out, " n=%zu p_len_le_cap=0\n", on); free(src); free(dst); h->n_lines++; return; }
        fprintf(h->out, " n=%zu out=", on); h_hex(h->out, dst, on);
        /* round trip through carquet's own decompressor, exact-size buffers */
        uint8_t* cs = h_alloc(on); memcpy(cs, dst, on);
        uint8_t* back = h_alloc(n); size_t bn = (size_t)-1;
        int st2 = carquet_lz4_decompress(cs, on, back, n, &bn);
        fprintf(h->out, " p_rt=%d", st2 == 0 && bn == n && memcmp(back, src, n) == 0);
        ref_init();
        if (ref_dec && n > 0 && n < (1u << 30)) {
            uint8_t* rb = h_alloc(n);
            int r = ref_dec((const char*)cs, (char*)rb, (int)on, (int)n);
            fprintf(h->out, " p_ref=%d", r == (int)n && memcmp(rb, src, n) == 0);
            free(rb);
        }
        if (on < n) s_c_match++;
        s_c_ok++;
        free(cs); free(back);
    } else {
        fprintf(h->out, " n=0 out=x");
        s_c_refused++;
    }
    if (n == 0) fprintf(h->out, " triv=1");
    fprintf(h->out, "\n");
    h->n_lines++;
    free(src); free(dst);
}

/* ---------- lz4 decompress ---------- */
static const char* g_dop = "lz4_d";     /* "lz4_dm" for the memory-safety component (C08) */
static void do_lz4_d(hctx* h, const uint8_t* s, size_t n, size_t cap, const uint8_t* exp, size_t en, int has_exp) {
    uint8_t* src = h_alloc(n); memcpy(src, s, n);
    uint8_t* dst = h_alloc(cap);
    fprintf(h->out, "%s src=", g_dop); h_hex(h->out, src, n); fprintf(h->out, " cap=%zu", cap);
    if (has_exp) { fprintf(h->out, " exp="); h_hex(h->out, exp, en); }
    h_call(h);
    size_t on = (size_t)-1;
    int st = carquet_lz4_decompress(src, n, dst, cap, &on);
    fprintf(h->out, " | st=%d", st);
    if (st == 0 && on <= cap) {
        fprintf(h->out, " out="); h_hex(h->out, dst, on);
        if (has_exp && cap >= en) fprintf(h->out, " p_exp=%d", on == en && memcmp(dst, exp, en) == 0);
        s_d_ok++;
    } else if (st == 0) {
        fprintf(h->out, " out=x p_len_le_cap=0");
    } else {
        fprintf(h->out, " out=x");
        if (has_exp && cap >= en) fprintf(h->out, " p_exp=0");
        s_d_err++;
    }
    fprintf(h->out, "\n");
    h->n_lines++;
    free(src); free(dst);
}

/* ---------- independent encoder, written from lz4_Block_format.md ---------- */
typedef struct { uint8_t* b; size_t n, cap; } buf;
static void b_put(buf* b, uint8_t v) {
    if (b->n == b->cap) { b->cap = b->cap ? b->cap * 2 : 256; b->b = (uint8_t*)realloc(b->b, b->cap); }
    b->b[b->n++] = v;
}
static void enc_len_ext(buf* o, size_t extra) {           /* value - 15, as 255-chain */
    while (extra >= 255) { b_put(o, 255); extra -= 255; }
    b_put(o, (uint8_t)extra);
}
/* append one sequence; lits are drawn by the caller into `plain`, match copied there byte-wise */
static void enc_seq(buf* o, buf* plain, const uint8_t* lits, size_t ll, size_t off, size_t ml, int last, int lownib) {
    uint8_t tok = (uint8_t)((ll >= 15 ? 15 : ll) << 4);
    if (!last) tok |= (uint8_t)((ml - 4) >= 15 ? 15 : (ml - 4)); else tok |= (uint8_t)(lownib & 15);
    b_put(o, tok);
    if (ll >= 15) enc_len_ext(o, ll - 15);
    for (size_t i = 0; i < ll; i++) { b_put(o, lits[i]); b_put(plain, lits[i]); }
    if (last) return;
    b_put(o, (uint8_t)(off & 255)); b_put(o, (uint8_t)(off >> 8));
    if (ml - 4 >= 15) enc_len_ext(o, ml - 4 - 15);
    for (size_t i = 0; i < ml; i++) b_put(plain, plain->b[plain->n - off]);
}
static size_t pick_len(hctx* h, int is_match) {
    static const size_t lit_b[] = {0, 0, 1, 2, 14, 15, 16, 17, 254, 255, 256, 269, 270, 271, 524, 525, 526};
    static const size_t mat_b[] = {4, 4, 5, 8, 9, 18, 19, 20, 21, 272, 273, 274, 275, 528, 529, 530};
    if (h_chance(h, 1, 2)) return is_match ? 4 + (size_t)h_below(h, 12) : (size_t)h_below(h, 9);
    if (is_match) return mat_b[h_below(h, sizeof mat_b / sizeof *mat_b)];
    return lit_b[h_below(h, sizeof lit_b / sizeof *lit_b)];
}
/* a random valid block; `plain` receives what it encodes.  far: allow growth to > 64 KiB so that
 * offset 65535 becomes possible. */
static void gen_block(hctx* h, buf* o, buf* plain, int nseq, int far) {
    uint8_t lits[600];
    o->n = plain->n = 0;
    for (int s = 0; s < nseq; s++) {
        size_t ll = pick_len(h, 0);
        if (plain->n == 0 && ll == 0) ll = 1;             /* a match needs something to copy */
        int k = (int)h_below(h, 3);
        for (size_t i = 0; i < ll; i++) lits[i] = k == 0 ? (uint8_t)h_next(h) : (uint8_t)('a' + (i + s) % (k == 1 ? 3 : 23));
        size_t cur = plain->n + ll, off;
        switch (h_below(h, 8)) {
        case 0: off = 1; break;
        case 1: off = 2 + h_below(h, 6); break;               /* 2..7: overlapping, slow path */
        case 2: off = 8; break;                               /* first value of the wide-copy path */
        case 3: off = 9 + h_below(h, 8); break;
        case 4: off = cur; break;                             /* maximal offset: start of output */
        case 5: off = cur > 65535 ? 65535 : cur; break;
        case 6: off = cur > 1 ? cur - 1 : 1; break;
        default: off = 1 + h_below(h, cur); break;
        }
        if (off > cur) off = cur;
        if (off > 65535) off = 65535;
        if (off == 0) off = 1;
        size_t ml = pick_len(h, 1);
        if (far && h_chance(h, 1, 3)) ml = 3000 + (size_t)h_below(h, 9000);
        enc_seq(o, plain, lits, ll, off, ml, 0, 0);
    }
    size_t ll = pick_len(h, 0);
    for (size_t i = 0; i < ll; i++) lits[i] = (uint8_t)h_next(h);
    enc_seq(o, plain, lits, ll, 0, 0, 1, h_chance(h, 1, 4) ? (int)h_below(h, 16) : 0);
}

/* ---------- input builders for the compressor ---------- */
/* literals(L) ++ copy of M bytes from distance D ++ tail(T): aims the literal-length and
 * match-length encodings at chosen values */
static size_t build_lmt(hctx* h, uint8_t* p, size_t L, size_t D, size_t M, size_t T) {
    size_t n = 0;
    for (size_t i = 0; i < L; i++) p[n++] = (uint8_t)h_next(h);
    if (D > n) D = n;
    if (D == 0) { p[n++] = 7; D = 1; }
    for (size_t i = 0; i < M; i++) { p[n] = p[n - D]; n++; }
    for (size_t i = 0; i < T; i++) p[n++] = (uint8_t)h_next(h);
    return n;
}
static void fill_text(hctx* h, uint8_t* p, size_t n) {
    static const char* w[] = {"parquet ", "column ", "page ", "row group ", "dictionary ", "0123456789", "\n", "lz4 "};
    size_t i = 0;
    while (i < n) { const char* s = w[h_below(h, 8)]; for (; *s && i < n; s++) p[i++] = (uint8_t)*s; }
}

static void lz4_c_caps(hctx* h, const uint8_t* x, size_t n, int all) {
    size_t b = carquet_lz4_compress_bound(n);
    do_lz4_c(h, x, n, b);
    if (!all) return;
    do_lz4_c(h, x, n, b - 1);
    do_lz4_c(h, x, n, n);
    do_lz4_c(h, x, n, (size_t)h_below(h, 6));
    do_lz4_c(h, x, n, b + 1 + (size_t)h_below(h, 9));
}

static void gen_lz4_compress(hctx* h) {
    size_t big = 300000;
    uint8_t* p = h_alloc((h->thorough ? ((size_t)1 << 22) + 16 : big) + 70000);
    ref_init();
    /* --- compressor: empty, 1..40 bytes x fill kinds x capacities --- */
    for (size_t n = 0; n <= 40; n++)
        for (int k = 0; k < 5; k++) { h_fill(h, p, n, k); lz4_c_caps(h, p, n, n <= 20 || k == 1); }
    /* lengths around the literal/match length encodings and the 12/13/16 end margins */
    static const size_t Ls[] = {0, 1, 13, 14, 15, 16, 254, 255, 256, 268, 269, 270, 271, 524, 525, 526};
    static const size_t Ms[] = {4, 5, 17, 18, 19, 20, 21, 272, 273, 274, 275, 528, 529, 530};
    static const size_t Ts[] = {0, 1, 4, 5, 11, 12, 13, 15, 16, 17, 30};
    for (size_t i = 0; i < sizeof Ls / sizeof *Ls; i++)
        for (size_t j = 0; j < sizeof Ms / sizeof *Ms; j++) {
            size_t T = Ts[h_below(h, sizeof Ts / sizeof *Ts)];
            size_t D = h_chance(h, 1, 3) ? 1 : 1 + (size_t)h_below(h, Ls[i] + 1);
            size_t n = build_lmt(h, p, Ls[i], D, Ms[j], T);
            lz4_c_caps(h, p, n, (i + j) % 5 == 0);
        }
    for (size_t j = 0; j < sizeof Ts / sizeof *Ts; j++) {
        size_t n = build_lmt(h, p, 6, 3, 20, Ts[j]); lz4_c_caps(h, p, n, 1);
        h_fill(h, p, 16 + Ts[j], 1); lz4_c_caps(h, p, 16 + Ts[j], 0);
    }
    /* --- distances around 65535 and aliasing in the uint16 position table --- */
    static const size_t dist[] = {65534, 65535, 65536, 65537, 65540, 131072};
    for (size_t i = 0; i < sizeof dist / sizeof *dist; i++) {
        for (size_t at = 0; at < 3; at++) {
            size_t a = at == 0 ? 0 : at == 1 ? 1 : 5 + (size_t)h_below(h, 300);
            size_t n = a + dist[i] + 64;
            h_fill(h, p, n, 0);
            memcpy(p + a + dist[i], p + a, 40);       /* 40 bytes repeat at exactly this distance */
            lz4_c_caps(h, p, n, 0); s_c_big++;
        }
    }
    /* the same with a zero run in between: the run is one long match, so the table entry of the
     * first marker survives and the candidate at the second marker is exactly `dist` back
     * (65535 = largest offset that may be emitted, 65536 would be written as offset 0) */
    for (size_t i = 0; i < sizeof dist / sizeof *dist; i++) {
        for (size_t a = 0; a < 2; a++) {
            size_t n = a + dist[i] + 40;
            memset(p, 0, n);
            for (size_t q = 0; q < 8; q++) { p[a + q] = (uint8_t)(1 + h_below(h, 255)); p[a + dist[i] + q] = p[a + q]; }
            for (size_t q = a + dist[i] + 8; q < n; q++) p[q] = (uint8_t)(1 + h_below(h, 255));
            lz4_c_caps(h, p, n, 0); s_c_big++;
        }
    }
    /* long repetitive / text / incompressible inputs beyond 64 KiB */
    size_t sizes[] = {65535, 65536, 65537, 70000, 100000, 131071, 131072, 131073, 200000, big};
    int nsz = h->thorough ? 10 : 6;
    for (int i = 0; i < nsz; i++) {
        size_t n = sizes[h->thorough ? i : (i * 3) % 10];
        h_fill(h, p, n, 1); lz4_c_caps(h, p, n, i == 0); s_c_big++;
        h_fill(h, p, n, 3); lz4_c_caps(h, p, n, 0); s_c_big++;
        fill_text(h, p, n); lz4_c_caps(h, p, n, 0); s_c_big++;
        if (i < 3 || h->thorough) { h_fill(h, p, n, 0); lz4_c_caps(h, p, n, i == 1); s_c_big++; }
        /* period just above 64 KiB: every candidate is an aliased table entry */
        h_fill(h, p, 65540, 0); for (size_t q = 65540; q < n; q++) p[q] = p[q - 65540];
        if (n > 65540) { lz4_c_caps(h, p, n, 0); s_c_big++; }
    }
    if (h->thorough) {                                  /* MiB-sized inputs */
        size_t mb[] = {(size_t)1 << 20, ((size_t)1 << 22) + 3};
        for (int i = 0; i < 2; i++) {
            h_fill(h, p, mb[i], 1); lz4_c_caps(h, p, mb[i], 0);
            fill_text(h, p, mb[i]); lz4_c_caps(h, p, mb[i], 0);
            h_fill(h, p, mb[i], 0); lz4_c_caps(h, p, mb[i], 0);
            h_fill(h, p, mb[i], 3); lz4_c_caps(h, p, mb[i], 0);
            s_c_big += 4;
        }
    }
    /* random structured inputs */
    long m = h->thorough ? 6000 : 500;
    for (long i = 0; i < m; i++) {
        size_t n = (size_t)h_below(h, h_chance(h, 1, 10) ? 6000 : 300);
        int k = (int)h_below(h, 6);
        if (k == 5) fill_text(h, p, n); else h_fill(h, p, n, k);
        if (h_chance(h, 1, 2) && n > 60) {            /* sprinkle repeats */
            for (int r = 0; r < 4; r++) {
                size_t len = 4 + (size_t)h_below(h, 40), to = (size_t)h_below(h, n - len), from = (size_t)h_below(h, to + 1);
                memmove(p + to, p + from, len);
            }
        }
        lz4_c_caps(h, p, n, h_chance(h, 1, 8));
    }
    free(p);
    fprintf(h->out, "#stat c_ok %ld\n#stat c_refused %ld\n#stat c_shrunk %ld\n#stat c_big %ld\n", s_c_ok, s_c_refused, s_c_match, s_c_big);
}

static void gen_lz4_decompress(hctx* h) {
    uint8_t* p = h_alloc(150000 + 64);
    ref_init();
    /* --- decompressor: grammar-generated valid blocks --- */
    buf o = {0}, plain = {0};
    long g = h->thorough ? 5000 : 500;
    for (long i = 0; i < g; i++) {
        int far = (i % 50) == 7;
        gen_block(h, &o, &plain, far ? 12 + (int)h_below(h, 10) : (int)h_below(h, 6), far);
        do_lz4_d(h, o.b, o.n, plain.n, plain.b, plain.n, 1); s_d_gram++;
        if (i % 4 == 0 && plain.n > 0) do_lz4_d(h, o.b, o.n, plain.n - 1, plain.b, plain.n, 1);
        if (i % 4 == 1) do_lz4_d(h, o.b, o.n, plain.n + 1 + (size_t)h_below(h, 20), plain.b, plain.n, 1);
        if (far) continue;
        /* mutations of a valid block */
        if (o.n > 0 && o.n < 4000) {
            uint8_t* mcopy = h_alloc(o.n);
            for (int r = 0; r < 3; r++) {
                memcpy(mcopy, o.b, o.n);
                size_t at = (size_t)h_below(h, o.n);
                switch (h_below(h, 4)) {
                case 0: mcopy[at] ^= (uint8_t)(1u << h_below(h, 8)); break;
                case 1: mcopy[at] = 0; if (at + 1 < o.n) mcopy[at + 1] = 0; break;    /* offset 0 */
                case 2: mcopy[at] = 0xff; if (at + 1 < o.n) mcopy[at + 1] = 0xff; break; /* far offset / chain */
                default: mcopy[at] = (uint8_t)h_next(h); break;
                }
                do_lz4_d(h, mcopy, o.n, plain.n, NULL, 0, 0); s_d_mut++;
            }
            free(mcopy);
        }
        /* every truncation of small blocks */
        if (o.n <= 48 && i % 3 == 0)
            for (size_t cut = 0; cut < o.n; cut++) { do_lz4_d(h, o.b, cut, plain.n, NULL, 0, 0); s_d_trunc++; }
    }
    /* blocks that stop right after a match / empty block (end-of-block rule 1) */
    {
        static const uint8_t e1[] = {0x10, 0x41, 0x01, 0x00};
        do_lz4_d(h, e1, 0, 0, NULL, 0, 0);
        do_lz4_d(h, e1, 0, 7, NULL, 0, 0);
        do_lz4_d(h, e1, 4, 5, NULL, 0, 0);
        do_lz4_d(h, e1, 4, 9, NULL, 0, 0);
        static const uint8_t e2[] = {0x10, 0x41, 0x01, 0x00, 0x00};
        do_lz4_d(h, e2, 5, 5, (const uint8_t*)"AAAAA", 5, 1);
        static const uint8_t e3[] = {0x00};
        do_lz4_d(h, e3, 1, 0, (const uint8_t*)"", 0, 1);
    }
    /* raw random bytes and all 1- and 2-byte inputs with a few capacities */
    for (int a = 0; a < 256; a++) { uint8_t s[1] = {(uint8_t)a}; do_lz4_d(h, s, 1, (size_t)(a % 3) * 8, NULL, 0, 0); }
    for (int a = 0; a < 256; a += (h->thorough ? 1 : 5))
        for (int b2 = 0; b2 < 256; b2 += 17) { uint8_t s[2] = {(uint8_t)a, (uint8_t)b2}; do_lz4_d(h, s, 2, 20, NULL, 0, 0); }
    long rr = h->thorough ? 20000 : 1500;
    for (long i = 0; i < rr; i++) {
        size_t n = (size_t)h_below(h, 40);
        for (size_t q = 0; q < n; q++) p[q] = h_chance(h, 1, 3) ? (uint8_t)h_below(h, 4) : (uint8_t)h_next(h);
        if (n > 0 && h_chance(h, 1, 2)) p[0] = (uint8_t)((h_below(h, 4) << 4) | h_below(h, 16));  /* short literal run first */
        do_lz4_d(h, p, n, (size_t)h_below(h, 64), NULL, 0, 0); s_d_rand++;
    }
    /* blocks produced by the reference encoder (liblz4), fast and HC */
    if (ref_cmp) {
        long rc = h->thorough ? 1500 : 150;
        for (long i = 0; i < rc; i++) {
            size_t n = 1 + (size_t)h_below(h, (i % 25 == 0) ? 150000 : 3000);
            int k = (int)h_below(h, 6);
            if (k == 5) fill_text(h, p, n); else h_fill(h, p, n, k);
            int cb = (int)(n + n / 255 + 32);
            uint8_t* c = h_alloc((size_t)cb);
            int cn = (ref_hc && (i & 1)) ? ref_hc((const char*)p, (char*)c, (int)n, cb, 9) : ref_cmp((const char*)p, (char*)c, (int)n, cb);
            if (cn > 0) { do_lz4_d(h, c, (size_t)cn, n, p, n, 1); s_d_ref++; }
            free(c);
        }
    }
    free(o.b); free(plain.b); free(p);
    fprintf(h->out, "#stat d_ok %ld\n#stat d_err %ld\n#stat d_grammar %ld\n#stat d_mutated %ld\n#stat d_truncated %ld\n#stat d_random %ld\n#stat d_liblz4 %ld\n",
            s_d_ok, s_d_err, s_d_gram, s_d_mut, s_d_trunc, s_d_rand, s_d_ref);
    fprintf(h->out, "#stat liblz4_available %d\n", ref_dec ? 1 : 0);
}
static void gen_lz4(hctx* h) { gen_lz4_compress(h); gen_lz4_decompress(h); }
static void gen_lz4mem(hctx* h) { g_dop = "lz4_dm"; gen_lz4_decompress(h); g_dop = "lz4_d"; }

/* =====================  gzip / zstd wrappers  ===================== */

/* zlib called directly, the way its own compress2()/uncompress2() drive a one-shot call
 * (gzip container, windowBits 15+16, memLevel 8) */
static int z_direct_c(const uint8_t* s, size_t n, uint8_t* d, size_t cap, int level, size_t* on) {
    z_stream z; memset(&z, 0, sizeof z);
    if (deflateInit2(&z, level, Z_DEFLATED, 15 + 16, 8, Z_DEFAULT_STRATEGY) != Z_OK) return 0;
    const uInt mx = (uInt)-1; size_t il = n, ol = cap; int r;
    z.next_in = (Bytef*)s; z.next_out = d;
    do {
        if (z.avail_out == 0) { z.avail_out = ol > mx ? mx : (uInt)ol; ol -= z.avail_out; }
        if (z.avail_in == 0) { z.avail_in = il > mx ? mx : (uInt)il; il -= z.avail_in; }
        r = deflate(&z, il ? Z_NO_FLUSH : Z_FINISH);
    } while (r == Z_OK);
    *on = z.total_out;
    deflateEnd(&z);
    return r == Z_STREAM_END;
}
static int z_direct_d(const uint8_t* s, size_t n, uint8_t* d, size_t cap, size_t* on) {
    z_stream z; memset(&z, 0, sizeof z);
    if (inflateInit2(&z, 15 + 16) != Z_OK) return 0;
    const uInt mx = (uInt)-1; size_t il = n, ol = cap; int r;
    z.next_in = (Bytef*)s; z.next_out = d;
    do {
        if (z.avail_out == 0) { z.avail_out = ol > mx ? mx : (uInt)ol; ol -= z.avail_out; }
        if (z.avail_in == 0) { z.avail_in = il > mx ? mx : (uInt)il; il -= z.avail_in; }
        r = inflate(&z, Z_NO_FLUSH);
    } while (r == Z_OK);
    *on = z.total_out;
    inflateEnd(&z);
    return r == Z_STREAM_END;
}
static int zs_direct_c(const uint8_t* s, size_t n, uint8_t* d, size_t cap, int level, size_t* on) {
    size_t r = ZSTD_compress(d, cap, s, n, level);
    if (ZSTD_isError(r)) return 0;
    *on = r; return 1;
}
static int zs_direct_d(const uint8_t* s, size_t n, uint8_t* d, size_t cap, size_t* on) {
    size_t r = ZSTD_decompress(d, cap, s, n);
    if (ZSTD_isError(r)) return 0;
    *on = r; return 1;
}
static int clamp_gz(int l) { return l < 1 ? 1 : l > 9 ? 9 : l; }
static int clamp_zs(int l) { return l < 1 ? 1 : l > ZSTD_maxCLevel() ? ZSTD_maxCLevel() : l; }

/* zs=0 gzip, zs=1 zstd */
static void do_w_c(hctx* h, int zs, const uint8_t* x, size_t n, size_t cap, int lvl) {
    uint8_t* src = h_alloc(n); memcpy(src, x, n);
    uint8_t* dst = h_alloc(cap); uint8_t* dd = h_alloc(cap);
    int dl = zs ? clamp_zs(lvl) : clamp_gz(lvl);
    size_t dn = 0;
    int dok = zs ? zs_direct_c(src, n, dd, cap, dl, &dn) : z_direct_c(src, n, dd, cap, dl, &dn);
    fprintf(h->out, "%s lvl=%d src=", zs ? "zs_c" : "gz_c", lvl); h_hex(h->out, src, n);
    fprintf(h->out, " cap=%zu dl=%d dok=%d dout=", cap, dl, dok); h_hex(h->out, dd, dok ? dn : 0);
    if (zs) fprintf(h->out, " maxl=%d", ZSTD_maxCLevel());
    h_call(h);
    size_t on = (size_t)-1;
    int st = zs ? carquet_zstd_compress(src, n, dst, cap, &on, lvl) : carquet_gzip_compress(src, n, dst, cap, &on, lvl);
    size_t bound = zs ? carquet_zstd_compress_bound(n) : carquet_gzip_compress_bound(n);
    fprintf(h->out, " | st=%d bound=%zu", st, bound);
    if (st == 0 && on <= cap) {
        fprintf(h->out, " out="); h_hex(h->out, dst, on);
        uint8_t* cs = h_alloc(on); memcpy(cs, dst, on);
        uint8_t* back = h_alloc(n); size_t bn = (size_t)-1;
        int st2 = zs ? carquet_zstd_decompress(cs, on, back, n, &bn) : carquet_gzip_decompress(cs, on, back, n, &bn);
        fprintf(h->out, " p_rt=%d", st2 == 0 && bn == n && memcmp(back, src, n) == 0);
        size_t ln = (size_t)-1;
        int lok = zs ? zs_direct_d(cs, on, back, n, &ln) : z_direct_d(cs, on, back, n, &ln);
        fprintf(h->out, " p_lib=%d", lok && ln == n && memcmp(back, src, n) == 0);
        if (cap >= bound) fprintf(h->out, " p_le_bound=%d", on <= bound);
        free(cs); free(back); s_w_ok++;
    } else if (st == 0) {
        fprintf(h->out, " out=x p_len_le_cap=0");
    } else {
        fprintf(h->out, " out=x");
        if (cap >= bound) fprintf(h->out, " p_fits_bound=0");
        s_w_err++;
    }
    fprintf(h->out, "\n"); h->n_lines++;
    free(src); free(dst); free(dd);
}
static void do_w_d(hctx* h, int zs, const uint8_t* s, size_t n, size_t cap) {
    uint8_t* src = h_alloc(n); memcpy(src, s, n);
    uint8_t* dst = h_alloc(cap); uint8_t* dd = h_alloc(cap);
    size_t dn = 0;
    int dok = zs ? zs_direct_d(src, n, dd, cap, &dn) : z_direct_d(src, n, dd, cap, &dn);
    fprintf(h->out, "%s src=", zs ? "zs_d" : "gz_d"); h_hex(h->out, src, n);
    fprintf(h->out, " cap=%zu dok=%d dout=", cap, dok); h_hex(h->out, dd, dok ? dn : 0);
    h_call(h);
    size_t on = (size_t)-1;
    int st = zs ? carquet_zstd_decompress(src, n, dst, cap, &on) : carquet_gzip_decompress(src, n, dst, cap, &on);
    fprintf(h->out, " | st=%d", st);
    if (st == 0 && on <= cap) { fprintf(h->out, " out="); h_hex(h->out, dst, on); s_w_ok++; }
    else if (st == 0) fprintf(h->out, " out=x p_len_le_cap=0");
    else { fprintf(h->out, " out=x"); s_w_err++; }
    fprintf(h->out, "\n"); h->n_lines++;
    free(src); free(dst); free(dd);
}

/* source of n zero bytes that costs no memory: private read-only anonymous mapping */
static void do_gz_big(hctx* h, size_t n, size_t cap, int lvl) {
    uint8_t* src = (uint8_t*)mmap(NULL, n, PROT_READ, MAP_PRIVATE | MAP_ANONYMOUS | MAP_NORESERVE, -1, 0);
    if (src == MAP_FAILED) { fprintf(h->out, "#stat gz_big_skipped 1\n"); return; }
    /* plain malloc: on a small machine the big-capacity variant is skipped, not a failure */
    uint8_t* dst = (uint8_t*)malloc(cap ? cap : 1); uint8_t* dd = (uint8_t*)malloc(cap ? cap : 1);
    uint8_t* td = (uint8_t*)malloc(cap ? cap : 1);
    if (!dst || !dd || !td) { free(dst); free(dd); free(td); munmap(src, n); fprintf(h->out, "#stat gz_big_skipped 1\n"); return; }
    int dl = clamp_gz(lvl); size_t dn = 0;
    int dok = z_direct_c(src, n, dd, cap, dl, &dn);
    /* what a library fed only the first n mod 2^32 bytes would produce (the pre-fix cast) */
    size_t tn = (size_t)(uint32_t)n; size_t tdn = 0;
    int tok = z_direct_c(src, tn, td, (size_t)(uint32_t)cap, dl, &tdn);
    fprintf(h->out, "gz_big n=%zu cap=%zu lvl=%d dl=%d dok=%d dout=", n, cap, lvl, dl, dok); h_hex(h->out, dd, dok ? dn : 0);
    fprintf(h->out, " tok=%d tout=", tok); h_hex(h->out, td, tok ? tdn : 0);
    h_call(h);
    size_t on = (size_t)-1;
    int st = carquet_gzip_compress(src, n, dst, cap, &on, lvl);
    fprintf(h->out, " | st=%d", st);
    if (st == 0 && on <= cap) {
        fprintf(h->out, " out="); h_hex(h->out, dst, on);
        /* how many bytes does the produced stream encode?  (count only, small scratch window) */
        z_stream z; memset(&z, 0, sizeof z); inflateInit2(&z, 31);
        uint8_t win[4096]; z.next_in = dst; z.avail_in = (uInt)on; int r; int allzero = 1;
        do { z.next_out = win; z.avail_out = sizeof win; r = inflate(&z, Z_NO_FLUSH);
             for (size_t i = 0; i < sizeof win - z.avail_out; i++) if (win[i]) allzero = 0; } while (r == Z_OK && z.avail_out == 0);
        size_t total = z.total_out; inflateEnd(&z);
        fprintf(h->out, " decoded=%zu p_whole=%d", total, r == Z_STREAM_END && total == n && allzero);
    } else fprintf(h->out, " out=x");
    fprintf(h->out, "\n"); h->n_lines++;
    munmap(src, n); free(dst); free(dd); free(td);
}

/* NULL-pointer argument tests (source size 0, so that nothing is dereferenced by a correct check) */
static void do_null(hctx* h, int f, int sn, int dn, int zn) {
    static const char* names[] = {"lz4_c", "lz4_d", "gz_c", "gz_d", "zs_c", "zs_d"};
    uint8_t* src = h_alloc(0); uint8_t* dst = h_alloc(64); size_t on = 0;
    const uint8_t* s = sn ? NULL : src; uint8_t* d = dn ? NULL : dst; size_t* z = zn ? NULL : &on;
    fprintf(h->out, "codec_null f=%s srcnull=%d dstnull=%d sizenull=%d", names[f], sn, dn, zn); h_call(h);
    int st = 0;
    switch (f) {
    case 0: st = carquet_lz4_compress(s, 0, d, 64, z); break;
    case 1: st = carquet_lz4_decompress(s, 0, d, 64, z); break;
    case 2: st = carquet_gzip_compress(s, 0, d, 64, z, 6); break;
    case 3: st = carquet_gzip_decompress(s, 0, d, 64, z); break;
    case 4: st = carquet_zstd_compress(s, 0, d, 64, z, 3); break;
    default: st = carquet_zstd_decompress(s, 0, d, 64, z); break;
    }
    fprintf(h->out, " | st=%d triv=1\n", st); h->n_lines++;
    free(src); free(dst);
}

static void gen_codecw(hctx* h) {
    size_t maxn = 20000;
    uint8_t* p = h_alloc(maxn + 16);
    int zmax = ZSTD_maxCLevel();
    for (int f = 0; f < 6; f++)
        for (int m = 1; m < 8; m++) do_null(h, f, m & 1, (m >> 1) & 1, (m >> 2) & 1);
    for (int zs = 0; zs < 2; zs++) {
        int hi = zs ? zmax : 9;
        /* every level, plus out-of-range levels that must be clamped, on inputs where levels differ */
        for (int lvl = -3; lvl <= hi + 3; lvl++) {
            static const size_t ns[] = {0, 1, 17, 300, 5000};
            for (size_t i = 0; i < sizeof ns / sizeof *ns; i++) {
                size_t n = ns[i];
                if (zs && lvl > 19 && n > 300 && !h->thorough) continue;      /* ultra levels are slow */
                if (i % 2) fill_text(h, p, n); else h_fill(h, p, n, 3);
                size_t b = zs ? carquet_zstd_compress_bound(n) : carquet_gzip_compress_bound(n);
                do_w_c(h, zs, p, n, b, lvl);
                if (lvl == 1 || lvl == 6 || lvl == hi) {
                    do_w_c(h, zs, p, n, b - 1, lvl);
                    do_w_c(h, zs, p, n, n, lvl);
                    do_w_c(h, zs, p, n, (size_t)h_below(h, 12), lvl);
                    do_w_c(h, zs, p, n, n / 4, lvl);
                }
            }
        }
        /* incompressible inputs well beyond one deflate block buffer (stored blocks: the library's bound formula is exact only for the
         * default memLevel / block size), destination exactly the advertised bound */
        { static const size_t bn[] = { 40000, 65536, 70000, 150000, 400000 };
          for (size_t i = 0; i < (h->thorough ? 5u : 3u); i++) {
              uint8_t* q = h_alloc(bn[i]); h_fill(h, q, bn[i], 0);
              for (size_t z = 0; z < bn[i]; z++) q[z] = (uint8_t)h_next(h);
              size_t b = zs ? carquet_zstd_compress_bound(bn[i]) : carquet_gzip_compress_bound(bn[i]);
              static const int lv[] = { 1, 6, 9 };
              for (int li = 0; li < 3; li++) do_w_c(h, zs, q, bn[i], b, zs && li == 2 ? 12 : lv[li]);
              free(q);
          } }
        long m = h->thorough ? 1500 : 120;
        for (long i = 0; i < m; i++) {
            size_t n = (size_t)h_below(h, h_chance(h, 1, 10) ? maxn : 600);
            int k = (int)h_below(h, 6);
            if (k == 5) fill_text(h, p, n); else h_fill(h, p, n, k);
            int lvl = 1 + (int)h_below(h, zs ? (h->thorough ? (uint64_t)zmax : 12) : 9);
            size_t b = zs ? carquet_zstd_compress_bound(n) : carquet_gzip_compress_bound(n);
            size_t cap = h_chance(h, 2, 3) ? b : (size_t)h_below(h, b + 1);
            do_w_c(h, zs, p, n, cap, lvl);
        }
        /* decompress side: valid streams at exact / short / long capacity, damaged and truncated streams */
        long d = h->thorough ? 600 : 80;
        for (long i = 0; i < d; i++) {
            size_t n = (size_t)h_below(h, 2000);
            if (i < 3) n = (size_t)i;
            fill_text(h, p, n);
            size_t cb = (zs ? ZSTD_compressBound(n) : compressBound(n) + 18) + 8, cn = 0;
            uint8_t* c = h_alloc(cb);
            int ok = zs ? zs_direct_c(p, n, c, cb, 1 + (int)h_below(h, 5), &cn) : z_direct_c(p, n, c, cb, 1 + (int)h_below(h, 9), &cn);
            if (ok) {
                do_w_d(h, zs, c, cn, n);
                if (n > 0) do_w_d(h, zs, c, cn, n - 1);
                do_w_d(h, zs, c, cn, n + 1 + (size_t)h_below(h, 9));
                do_w_d(h, zs, c, (size_t)h_below(h, cn + 1), n);                 /* truncated */
                c[h_below(h, cn)] ^= (uint8_t)(1u << h_below(h, 8));
                do_w_d(h, zs, c, cn, n);                                        /* damaged */
            }
            free(c);
        }
        for (int i = 0; i < 40; i++) {                                          /* raw bytes */
            size_t n = (size_t)h_below(h, 30);
            for (size_t q = 0; q < n; q++) p[q] = (uint8_t)h_next(h);
            do_w_d(h, zs, p, n, (size_t)h_below(h, 40));
        }
    }
    /* sizes that do not fit zlib's 32-bit avail_in: 4 GiB + 5 zero bytes, small destination */
    do_gz_big(h, ((size_t)1 << 32) + 5, 64, 6);
    do_gz_big(h, ((size_t)1 << 32) + 5, 4096, 1);
    /* thorough: the whole 4 GiB + 5 bytes into the advertised bound (must succeed and decode to all of it) */
    if (h->thorough) do_gz_big(h, ((size_t)1 << 32) + 5, carquet_gzip_compress_bound(((size_t)1 << 32) + 5), 1);
    free(p);
    fprintf(h->out, "#stat w_ok %ld\n#stat w_err %ld\n#stat zstd_max_level %d\n", s_w_ok, s_w_err, zmax);
}

static int replay_lz4(hctx* h, const h_line* l) {
    if (!strcmp(l->op, "lz4_c")) {
        size_t n; uint8_t* d = h_unhex(h_in(l, "src"), &n);
        do_lz4_c(h, d, n, (size_t)h_ll(h_in(l, "cap"))); free(d); return 1;
    }
    if (!strcmp(l->op, "lz4_d") || !strcmp(l->op, "lz4_dm")) {
        g_dop = !strcmp(l->op, "lz4_dm") ? "lz4_dm" : "lz4_d";
        size_t n, en = 0; uint8_t* d = h_unhex(h_in(l, "src"), &n);
        const char* e = h_in(l, "exp"); uint8_t* ex = e ? h_unhex(e, &en) : NULL;
        do_lz4_d(h, d, n, (size_t)h_ll(h_in(l, "cap")), ex, en, e != NULL); free(d); free(ex); return 1;
    }
    return 0;
}
static int replay_codecw(hctx* h, const h_line* l) {
    int zs = l->op[0] == 'z';
    if (!strcmp(l->op, "gz_c") || !strcmp(l->op, "zs_c")) {
        size_t n; uint8_t* d = h_unhex(h_in(l, "src"), &n);
        do_w_c(h, zs, d, n, (size_t)h_ll(h_in(l, "cap")), (int)h_ll(h_in(l, "lvl"))); free(d); return 1;
    }
    if (!strcmp(l->op, "gz_d") || !strcmp(l->op, "zs_d")) {
        size_t n; uint8_t* d = h_unhex(h_in(l, "src"), &n);
        do_w_d(h, zs, d, n, (size_t)h_ll(h_in(l, "cap"))); free(d); return 1;
    }
    if (!strcmp(l->op, "codec_null")) {
        static const char* names[] = {"lz4_c", "lz4_d", "gz_c", "gz_d", "zs_c", "zs_d"};
        for (int f = 0; f < 6; f++) if (!strcmp(h_in(l, "f"), names[f])) {
            do_null(h, f, (int)h_ll(h_in(l, "srcnull")), (int)h_ll(h_in(l, "dstnull")), (int)h_ll(h_in(l, "sizenull"))); return 1; }
        return 0;
    }
    if (!strcmp(l->op, "gz_big")) {
        do_gz_big(h, (size_t)strtoull(h_in(l, "n"), NULL, 10), (size_t)h_ll(h_in(l, "cap")), (int)h_ll(h_in(l, "lvl")));
        return 1;
    }
    return 0;
}

const h_component comp_lz4 = { "lz4", gen_lz4, replay_lz4 };
const h_component comp_lz4c = { "lz4c", gen_lz4_compress, NULL };
const h_component comp_lz4mem = { "lz4mem", gen_lz4mem, NULL };
const h_component comp_codecw = { "codecw", gen_codecw, replay_codecw };
