/* C11 / C12 (RLE part): ULEB128 varints + zigzag (core/endian.h), raw bit packing
 * (core/bitpack.c) and the RLE/bit-packed hybrid (encoding/rle.c), all on exact-size heap
 * buffers.  Every op line carries the inputs and what the real code returned; the Lean driver
 * (lean/Driver/Ops/Rle.lean) compares with the Impl model and evaluates the Spec predicates.
 *
 *  vi32 v=N        | enc=x.. n=N r=N dec=N            carquet_encode_varint32 + carquet_decode_varint32
 *  vi64 v=N        | enc=x.. n=N r=N dec=N
 *  vi32d data=x..  | r=INT v=N                        carquet_decode_varint32 on arbitrary bytes
 *  vi64d data=x..  | r=INT v=N
 *  zz32 v=INT      | e=N d=INT                        zigzag encode + decode
 *  zz64 v=INT      | e=N d=INT
 *  bp8 w=W vals=.. | out=x..                          carquet_bitpack8_32 (w-byte output)
 *  bu8 w=W data=x..| vals=.. sp=..                    carquet_bitunpack8_32 (+ specialised fn, 1..8)
 *  bp w=W vals=..  | out=x.. n=N p_rt=B               carquet_bitpack_32 into packed_size bytes, round trip
 *  bu w=W n=N data=x.. | vals=.. used=N               carquet_bitunpack_32
 *  rle_enc w=W vals=.. | out=x.. st=N p_rt=B          carquet_rle_encode_all, round trip via decode_all
 *  rle_encops w=W ops=p5.r7x20.f | out=x..            put / put_repeat / flush history
 *  rle_bigrun w=W v=V n=N | out=x..                   put(v), repeat_count := N (as N puts), flush
 *  rle_dec w=W n=N data=x.. [exp=..] | r=N vals=..    carquet_rle_decode_all
 *  rle_stream w=W data=x.. ops=g.b5.s3 | obs=v7.b1:2.s3 st=N pos=N hn=B all=..   streaming decoder history
 *                                                        (all = one-shot decode_all of demand(ops) values)
 *  lev_enc w=W vals=ints | out=x.. st=N p_rt=B        carquet_rle_encode_levels, round trip via decode_levels
 *  lev_dec w=W n=N data=x.. | r=N vals=ints           carquet_rle_decode_levels
 *  lev_pfx w=W n=N data=x.. | r=INT used=N vals=ints  carquet_rle_decode_levels_prefixed
 */
#include "common.h"
#include "encoding/rle.h"
#include "core/bitpack.h"
#include "core/endian.h"
#include "core/buffer.h"
#include <inttypes.h>

static long st_ops[32];
static long st_width[34];
static long st_short, st_err, st_exh, st_grammar, st_mutated, st_random;

/* ---------- printing ---------- */
static void pr_u32s(FILE* f, const uint32_t* v, size_t n) {
    if (n == 0) { fputc('-', f); return; }
    for (size_t i = 0; i < n; i++) fprintf(f, i ? ",%u" : "%u", v[i]);
}
static void pr_i16s(FILE* f, const int16_t* v, size_t n) {
    if (n == 0) { fputc('-', f); return; }
    for (size_t i = 0; i < n; i++) fprintf(f, i ? ",%d" : "%d", (int)v[i]);
}
static uint32_t* u32_exact(const uint32_t* v, size_t n) {
    uint32_t* p = (uint32_t*)h_alloc(n * sizeof(uint32_t));
    if (n) memcpy(p, v, n * sizeof(uint32_t));
    return p;
}
static uint8_t* bytes_exact(const uint8_t* v, size_t n) {
    uint8_t* p = h_alloc(n);
    if (n) memcpy(p, v, n);
    return p;
}
static uint32_t wmask(int w) { return w >= 32 ? 0xFFFFFFFFu : ((1u << w) - 1u); }

/* ---------- varint / zigzag ---------- */
static int vlen(uint64_t v) { int n = 1; while (v >= 0x80) { v >>= 7; n++; } return n; }

static void do_vi32(hctx* h, uint32_t v) {
    uint8_t* p = h_alloc((size_t)vlen(v));
    fprintf(h->out, "vi32 v=%u", v); h_call(h);
    int n = carquet_encode_varint32(p, v);
    uint32_t o = 0; int r = carquet_decode_varint32(p, (size_t)n, &o);
    fprintf(h->out, " | enc="); h_hex(h->out, p, (size_t)n);
    fprintf(h->out, " n=%d r=%d dec=%u\n", n, r, o);
    h->n_lines++; st_ops[0]++; free(p);
}
static void do_vi64(hctx* h, uint64_t v) {
    uint8_t* p = h_alloc((size_t)vlen(v));
    fprintf(h->out, "vi64 v=%" PRIu64, v); h_call(h);
    int n = carquet_encode_varint64(p, v);
    uint64_t o = 0; int r = carquet_decode_varint64(p, (size_t)n, &o);
    fprintf(h->out, " | enc="); h_hex(h->out, p, (size_t)n);
    fprintf(h->out, " n=%d r=%d dec=%" PRIu64 "\n", n, r, o);
    h->n_lines++; st_ops[1]++; free(p);
}
static void do_vid(hctx* h, const uint8_t* d, size_t n, int is64) {
    uint8_t* p = bytes_exact(d, n);
    fprintf(h->out, is64 ? "vi64d data=" : "vi32d data="); h_hex(h->out, p, n); h_call(h);
    if (is64) { uint64_t o = 0; int r = carquet_decode_varint64(p, n, &o);
        fprintf(h->out, " | r=%d v=%" PRIu64 "\n", r, r < 0 ? 0 : o); }
    else { uint32_t o = 0; int r = carquet_decode_varint32(p, n, &o);
        fprintf(h->out, " | r=%d v=%u\n", r, r < 0 ? 0 : o); }
    h->n_lines++; st_ops[2]++; free(p);
}
static void do_zz32(hctx* h, int32_t v) {
    fprintf(h->out, "zz32 v=%d", v); h_call(h);
    uint32_t e = carquet_zigzag_encode32(v); int32_t d = carquet_zigzag_decode32(e);
    fprintf(h->out, " | e=%u d=%d\n", e, d); h->n_lines++; st_ops[3]++;
}
static void do_zz64(hctx* h, int64_t v) {
    fprintf(h->out, "zz64 v=%" PRId64, v); h_call(h);
    uint64_t e = carquet_zigzag_encode64(v); int64_t d = carquet_zigzag_decode64(e);
    fprintf(h->out, " | e=%" PRIu64 " d=%" PRId64 "\n", e, d); h->n_lines++; st_ops[3]++;
}

/* ---------- bit packing ---------- */
static void do_bp8(hctx* h, int w, const uint32_t* v8) {
    uint32_t* v = u32_exact(v8, 8);
    uint8_t* out = h_alloc((size_t)w);
    fprintf(h->out, "bp8 w=%d vals=", w); pr_u32s(h->out, v, 8); h_call(h);
    carquet_bitpack8_32(v, w, out);
    fprintf(h->out, " | out="); h_hex(h->out, out, (size_t)w); fputc('\n', h->out);
    h->n_lines++; st_ops[4]++; st_width[w]++; free(v); free(out);
}
static void do_bu8(hctx* h, int w, const uint8_t* d) {
    uint8_t* in = bytes_exact(d, (size_t)w);
    uint32_t* v = (uint32_t*)h_alloc(8 * sizeof(uint32_t));
    uint32_t* s = (uint32_t*)h_alloc(8 * sizeof(uint32_t));
    fprintf(h->out, "bu8 w=%d data=", w); h_hex(h->out, in, (size_t)w); h_call(h);
    carquet_bitunpack8_32(in, w, v);
    carquet_bitunpack8_fn fn = carquet_get_bitunpack8_fn(w);
    if (fn) fn(in, s);
    fprintf(h->out, " | vals="); pr_u32s(h->out, v, 8);
    fprintf(h->out, " sp="); pr_u32s(h->out, s, fn ? 8 : 0); fputc('\n', h->out);
    h->n_lines++; st_ops[5]++; st_width[w]++; free(in); free(v); free(s);
}
static void do_bp(hctx* h, int w, const uint32_t* vals, size_t n) {
    uint32_t* v = u32_exact(vals, n);
    size_t cap = carquet_packed_size(n, w);
    uint8_t* out = h_alloc(cap);
    fprintf(h->out, "bp w=%d vals=", w); pr_u32s(h->out, v, n); h_call(h);
    size_t wr = carquet_bitpack_32(v, n, w, out);
    /* round trip through the real unpacker from an exact-size copy of what was reported */
    uint8_t* in = bytes_exact(out, wr <= cap ? wr : cap);
    uint32_t* back = (uint32_t*)h_alloc(n * sizeof(uint32_t));
    size_t used = carquet_bitunpack_32(in, n, w, back);
    int rt = (used == wr);
    for (size_t i = 0; i < n && rt; i++) rt = (back[i] == (v[i] & wmask(w)));
    fprintf(h->out, " | out="); h_hex(h->out, out, wr <= cap ? wr : cap);
    fprintf(h->out, " n=%zu p_rt=%d\n", wr, rt);
    h->n_lines++; st_ops[6]++; st_width[w]++; free(v); free(out); free(in); free(back);
}
static void do_bu(hctx* h, int w, size_t n, const uint8_t* d, size_t dn) {
    uint8_t* in = bytes_exact(d, dn);
    uint32_t* v = (uint32_t*)h_alloc(n * sizeof(uint32_t));
    fprintf(h->out, "bu w=%d n=%zu data=", w, n); h_hex(h->out, in, dn); h_call(h);
    size_t used = carquet_bitunpack_32(in, n, w, v);
    fprintf(h->out, " | vals="); pr_u32s(h->out, v, n); fprintf(h->out, " used=%zu\n", used);
    h->n_lines++; st_ops[7]++; st_width[w]++; free(in); free(v);
}

/* ---------- RLE encoder ---------- */
static void do_rle_enc(hctx* h, int w, const uint32_t* vals, size_t n, int exh) {
    uint32_t* v = u32_exact(vals, n);
    carquet_buffer_t b; carquet_buffer_init(&b);
    fprintf(h->out, "rle_enc w=%d vals=", w); pr_u32s(h->out, v, n); h_call(h);
    carquet_status_t st = carquet_rle_encode_all(v, (int64_t)n, w, &b);
    uint8_t* enc = bytes_exact(b.data, b.size);
    uint32_t* back = (uint32_t*)h_alloc(n * sizeof(uint32_t));
    int64_t r = carquet_rle_decode_all(enc, b.size, w, back, (int64_t)n);
    int rt = (r == (int64_t)n);
    for (size_t i = 0; i < n && rt; i++) rt = (back[i] == v[i]);
    fprintf(h->out, " | out="); h_hex(h->out, enc, b.size);
    fprintf(h->out, " st=%d p_rt=%d%s\n", (int)st, rt, n == 0 ? " triv=1" : "");
    h->n_lines++; st_ops[8]++; st_width[w]++; if (exh) st_exh++;
    free(v); free(enc); free(back); carquet_buffer_destroy(&b);
}
static void do_lev_enc(hctx* h, int w, const int16_t* vals, size_t n, int exh) {
    int16_t* v = (int16_t*)h_alloc(n * sizeof(int16_t));
    if (n) memcpy(v, vals, n * sizeof(int16_t));
    carquet_buffer_t b; carquet_buffer_init(&b);
    fprintf(h->out, "lev_enc w=%d vals=", w); pr_i16s(h->out, v, n); h_call(h);
    carquet_status_t st = carquet_rle_encode_levels(v, (int64_t)n, w, &b);
    uint8_t* enc = bytes_exact(b.data, b.size);
    int16_t* back = (int16_t*)h_alloc(n * sizeof(int16_t));
    int64_t r = carquet_rle_decode_levels(enc, b.size, w, back, (int64_t)n);
    int rt = (r == (int64_t)n);
    for (size_t i = 0; i < n && rt; i++) rt = (back[i] == v[i]);
    /* same bytes behind a 4-byte length prefix plus trailing bytes */
    size_t tail = (size_t)h_below(h, 4);
    uint8_t* pf = h_alloc(4 + b.size + tail);
    carquet_write_u32_le(pf, (uint32_t)b.size);
    if (b.size) memcpy(pf + 4, enc, b.size);
    for (size_t i = 0; i < tail; i++) pf[4 + b.size + i] = (uint8_t)h_next(h);
    size_t used = 12345;
    int64_t r2 = carquet_rle_decode_levels_prefixed(pf, 4 + b.size + tail, w, back, (int64_t)n, &used);
    int rt2 = (r2 == (int64_t)n) && used == 4 + b.size;
    for (size_t i = 0; i < n && rt2; i++) rt2 = (back[i] == v[i]);
    fprintf(h->out, " | out="); h_hex(h->out, enc, b.size);
    fprintf(h->out, " st=%d p_rt=%d p_rtpfx=%d%s\n", (int)st, rt, rt2, n == 0 ? " triv=1" : "");
    h->n_lines++; st_ops[9]++; st_width[w]++; if (exh) st_exh++;
    free(v); free(enc); free(back); free(pf); carquet_buffer_destroy(&b);
}
/* ops: p<v> put, r<v>x<n> put_repeat, f flush; separated by '.' */
static void do_rle_encops(hctx* h, int w, const char* ops) {
    carquet_buffer_t b; carquet_buffer_init(&b);
    carquet_rle_encoder_t e; carquet_rle_encoder_init(&e, &b, w);
    fprintf(h->out, "rle_encops w=%d ops=%s", w, ops); h_call(h);
    const char* c = ops;
    while (*c) {
        if (*c == 'p') { uint32_t v = (uint32_t)strtoul(c + 1, (char**)&c, 10); carquet_rle_encoder_put(&e, v); }
        else if (*c == 'r') { uint32_t v = (uint32_t)strtoul(c + 1, (char**)&c, 10);
            long long n = 0; if (*c == 'x') n = strtoll(c + 1, (char**)&c, 10);
            carquet_rle_encoder_put_repeat(&e, v, n); }
        else if (*c == 'f') { carquet_rle_encoder_flush(&e); c++; }
        else c++;
        if (*c == '.') c++;
    }
    fprintf(h->out, " | out="); h_hex(h->out, b.data, b.size); fputc('\n', h->out);
    h->n_lines++; st_ops[10]++; st_width[w]++; carquet_buffer_destroy(&b);
}
/* a run of n equal values without n calls: put(v) once, then set the public field
 * repeat_count (which n-1 further put(v) calls would only increment), then flush */
static void do_rle_bigrun(hctx* h, int w, uint32_t v, long long n) {
    carquet_buffer_t b; carquet_buffer_init(&b);
    carquet_rle_encoder_t e; carquet_rle_encoder_init(&e, &b, w);
    fprintf(h->out, "rle_bigrun w=%d v=%u n=%lld", w, v, n); h_call(h);
    carquet_rle_encoder_put(&e, v);
    e.repeat_count = n;
    carquet_rle_encoder_flush(&e);
    fprintf(h->out, " | out="); h_hex(h->out, b.data, b.size); fputc('\n', h->out);
    h->n_lines++; st_ops[11]++; carquet_buffer_destroy(&b);
}

/* ---------- RLE decoder ---------- */
static void do_rle_dec(hctx* h, int w, size_t n, const uint8_t* d, size_t dn, const uint32_t* exp, size_t nexp,
                       const char* kind) {
    uint8_t* in = bytes_exact(d, dn);
    uint32_t* out = (uint32_t*)h_alloc(n * sizeof(uint32_t));
    fprintf(h->out, "rle_dec w=%d n=%zu data=", w, n); h_hex(h->out, in, dn);
    if (exp) { fprintf(h->out, " exp="); pr_u32s(h->out, exp, nexp); }
    if (kind) fprintf(h->out, " kind=%s", kind);
    h_call(h);
    int64_t r = carquet_rle_decode_all(in, dn, w, out, (int64_t)n);
    fprintf(h->out, " | r=%" PRId64 " vals=", r); pr_u32s(h->out, out, r > 0 ? (size_t)r : 0);
    fputc('\n', h->out);
    if (r < (int64_t)n) st_short++;
    h->n_lines++; st_ops[12]++; st_width[w]++; free(in); free(out);
}
/* ops: g get, b<k> get_batch, s<k> skip; separated by '.' */
static void do_rle_stream(hctx* h, int w, const uint8_t* d, size_t dn, const char* ops) {
    uint8_t* in = bytes_exact(d, dn);
    carquet_rle_decoder_t dec; carquet_rle_decoder_init(&dec, in, dn, w);
    fprintf(h->out, "rle_stream w=%d data=", w); h_hex(h->out, in, dn);
    fprintf(h->out, " ops=%s", *ops ? ops : "-"); h_call(h);
    fprintf(h->out, " | obs=");
    const char* c = ops; int first = 1;
    if (!*c) fputc('-', h->out);
    while (*c) {
        if (!first) fputc('.', h->out);
        first = 0;
        if (*c == 'g') { uint32_t v = carquet_rle_decoder_get(&dec); fprintf(h->out, "v%u", v); c++; }
        else if (*c == 'b') {
            long k = strtol(c + 1, (char**)&c, 10);
            uint32_t* o = (uint32_t*)h_alloc((size_t)k * sizeof(uint32_t));
            int64_t r = carquet_rle_decoder_get_batch(&dec, o, k);
            fputc('b', h->out);
            for (int64_t i = 0; i < r; i++) fprintf(h->out, i ? ":%u" : "%u", o[i]);
            free(o);
        } else if (*c == 's') {
            long k = strtol(c + 1, (char**)&c, 10);
            int64_t r = carquet_rle_decoder_skip(&dec, k);
            fprintf(h->out, "s%" PRId64, r);
        } else c++;
        if (*c == '.') c++;
    }
    fprintf(h->out, " st=%d pos=%zu hn=%d", dec.status == CARQUET_OK ? 0 : 1, dec.pos,
            (int)carquet_rle_decoder_has_next(&dec));
    /* the one-shot decode of as many values as the history asks for, for the driver's
     * "stream = cursor over one-shot" predicate */
    { size_t dem = 0; const char* q = ops;
      while (*q) { if (*q == 'g') { dem++; q++; } else if (*q == 'b' || *q == 's') dem += (size_t)strtol(q + 1, (char**)&q, 10); else q++; }
      uint32_t* o = (uint32_t*)h_alloc(dem * sizeof(uint32_t));
      int64_t r = carquet_rle_decode_all(in, dn, w, o, (int64_t)dem);
      fprintf(h->out, " all="); pr_u32s(h->out, o, r > 0 ? (size_t)r : 0); fputc('\n', h->out);
      free(o); }
    if (dec.status != CARQUET_OK) st_err++;
    h->n_lines++; st_ops[13]++; st_width[w]++; free(in);
}
static void do_lev_dec(hctx* h, int w, size_t n, const uint8_t* d, size_t dn) {
    uint8_t* in = bytes_exact(d, dn);
    int16_t* out = (int16_t*)h_alloc(n * sizeof(int16_t));
    fprintf(h->out, "lev_dec w=%d n=%zu data=", w, n); h_hex(h->out, in, dn); h_call(h);
    int64_t r = carquet_rle_decode_levels(in, dn, w, out, (int64_t)n);
    fprintf(h->out, " | r=%" PRId64 " vals=", r); pr_i16s(h->out, out, r > 0 ? (size_t)r : 0);
    fputc('\n', h->out);
    if (r < (int64_t)n) st_short++;
    h->n_lines++; st_ops[14]++; st_width[w]++; free(in); free(out);
}
static void do_lev_pfx(hctx* h, int w, size_t n, const uint8_t* d, size_t dn) {
    uint8_t* in = bytes_exact(d, dn);
    int16_t* out = (int16_t*)h_alloc(n * sizeof(int16_t));
    fprintf(h->out, "lev_pfx w=%d n=%zu data=", w, n); h_hex(h->out, in, dn); h_call(h);
    size_t used = 12345;
    int64_t r = carquet_rle_decode_levels_prefixed(in, dn, w, out, (int64_t)n, &used);
    fprintf(h->out, " | r=%" PRId64 " used=%zu vals=", r, used); pr_i16s(h->out, out, r > 0 ? (size_t)r : 0);
    fputc('\n', h->out);
    if (r < 0) st_err++;
    h->n_lines++; st_ops[15]++; st_width[w]++; free(in); free(out);
}

/* ---------- generators ---------- */
static const int special_w[] = {0, 1, 2, 3, 7, 8, 9, 15, 16, 17, 24, 31, 32};
static int rand_width(hctx* h) {
    if (h_chance(h, 1, 2)) return special_w[h_below(h, sizeof special_w / sizeof special_w[0])];
    return (int)h_below(h, 33);
}
static const int special_len[] = {0, 1, 2, 3, 6, 7, 8, 9, 10, 15, 16, 17, 23, 24, 25, 63, 64, 65, 127, 128, 129};
static size_t rand_len(hctx* h, size_t max) {
    size_t n = h_chance(h, 2, 3) ? (size_t)special_len[h_below(h, sizeof special_len / sizeof special_len[0])]
                                 : (size_t)h_below(h, max + 1);
    return n > max ? max : n;
}
static uint32_t rand_val(hctx* h, int w) {
    uint32_t m = wmask(w);
    switch (h_below(h, 6)) {
    case 0: return 0;
    case 1: return m;
    case 2: return m >> 1;
    case 3: return (uint32_t)h_below(h, 4) & m;
    default: return (uint32_t)h_next(h) & m;
    }
}
/* run-structured sequence of values < 2^w */
static size_t gen_seq(hctx* h, int w, uint32_t* out, size_t max) {
    size_t n = 0, target = rand_len(h, max);
    while (n < target) {
        size_t seg = rand_len(h, 40); if (seg == 0) seg = 1;
        if (seg > target - n) seg = target - n;
        if (h_chance(h, 1, 2)) { uint32_t v = rand_val(h, w); for (size_t i = 0; i < seg; i++) out[n++] = v; }
        else { int small = h_chance(h, 1, 2);
               for (size_t i = 0; i < seg; i++) out[n++] = small ? ((uint32_t)h_below(h, 3) & wmask(w)) : rand_val(h, w); }
    }
    return n;
}

/* independent bit writer for grammar-generated streams (not carquet's packer) */
static void put_bits(uint8_t* buf, size_t* bitpos, uint32_t v, int w) {
    for (int b = 0; b < w; b++) {
        if ((v >> b) & 1u) buf[*bitpos / 8] |= (uint8_t)(1u << (*bitpos % 8));
        (*bitpos)++;
    }
}
static size_t put_header(hctx* h, uint8_t* buf, uint32_t hd, int allow_long) {
    size_t n = 0; uint32_t v = hd;
    while (v >= 0x80) { buf[n++] = (uint8_t)((v & 0x7F) | 0x80); v >>= 7; }
    buf[n++] = (uint8_t)v;
    if (allow_long && n < 5 && h_chance(h, 1, 5)) {      /* over-long: extra zero digits */
        size_t extra = 1 + (size_t)h_below(h, 5 - n);
        buf[n - 1] |= 0x80;
        for (size_t i = 0; i + 1 < extra; i++) buf[n++] = 0x80;
        buf[n++] = 0x00;
    }
    return n;
}
/* a stream of legal runs: RLE runs (length 0 allowed, value bytes always present), bit-packed
 * runs of 0..5 groups; exp receives every value the runs denote.  Returns byte length. */
static size_t gen_stream(hctx* h, int w, uint8_t* buf, size_t cap, uint32_t* exp, size_t expcap, size_t* nexp,
                         int* last_packed) {
    size_t n = 0, ne = 0; int runs = 1 + (int)h_below(h, 6);
    *last_packed = 0;
    for (int r = 0; r < runs; r++) {
        if (h_chance(h, 1, 2)) {
            static const uint32_t cnts[] = {0, 0, 1, 2, 7, 8, 9, 31, 100};
            uint32_t cnt = cnts[h_below(h, 9)];
            if (ne + cnt > expcap || n + 5 + 4 > cap) break;
            uint32_t v = rand_val(h, w);
            n += put_header(h, buf + n, cnt << 1, 1);
            for (int i = 0; i < (w + 7) / 8; i++) buf[n++] = (uint8_t)(v >> (8 * i));
            for (uint32_t i = 0; i < cnt; i++) exp[ne++] = v;
            if (cnt) *last_packed = 0;
        } else {
            static const uint32_t gs[] = {0, 1, 1, 2, 3, 5};
            uint32_t g = gs[h_below(h, 6)];
            if (ne + 8 * g > expcap || n + 5 + (size_t)g * (size_t)w > cap) break;
            n += put_header(h, buf + n, (g << 1) | 1, 1);
            memset(buf + n, 0, (size_t)g * (size_t)w);
            size_t bitpos = 0;
            for (uint32_t i = 0; i < 8 * g; i++) { uint32_t v = rand_val(h, w); put_bits(buf + n, &bitpos, v, w); exp[ne++] = v; }
            n += (size_t)g * (size_t)w;
            if (g) *last_packed = 1;
        }
    }
    *nexp = ne;
    return n;
}

static void gen_ops_string(hctx* h, char* s, size_t cap, int nops, int maxk) {
    size_t n = 0; s[0] = 0;
    for (int i = 0; i < nops && n + 16 < cap; i++) {
        if (i) s[n++] = '.';
        int k = (int)h_below(h, (uint64_t)maxk + 1);
        switch (h_below(h, 3)) {
        case 0: n += (size_t)sprintf(s + n, "g"); break;
        case 1: n += (size_t)sprintf(s + n, "b%d", k); break;
        default: n += (size_t)sprintf(s + n, "s%d", k); break;
        }
    }
}

static void exhaustive_from(hctx* h, int w, const uint32_t* letters, int nl, int minlen, int maxlen, int levels_too) {
    uint32_t seq[16]; int16_t lev[16]; int idx[16];
    for (int len = minlen; len <= maxlen; len++) {
        memset(idx, 0, sizeof idx);
        for (;;) {
            for (int i = 0; i < len; i++) { seq[i] = letters[idx[i]]; lev[i] = (int16_t)letters[idx[i]]; }
            do_rle_enc(h, w, seq, (size_t)len, 1);
            if (levels_too) do_lev_enc(h, w, lev, (size_t)len, 1);
            int p = len - 1;
            while (p >= 0 && ++idx[p] == nl) { idx[p] = 0; p--; }
            if (p < 0) break;
        }
    }
}

static void exhaustive(hctx* h, int w, const uint32_t* letters, int nl, int maxlen, int levels_too) {
    exhaustive_from(h, w, letters, nl, 0, maxlen, levels_too);
}

static void all_histories(hctx* h, int w, const uint8_t* d, size_t dn, int depth) {
    static const char* alpha[] = {"g", "b1", "b7", "b9", "s1", "s8"};
    int idx[8]; char ops[128];
    for (int len = 0; len <= depth; len++) {
        memset(idx, 0, sizeof idx);
        for (;;) {
            size_t n = 0; ops[0] = 0;
            for (int i = 0; i < len; i++) { if (i) ops[n++] = '.'; n += (size_t)sprintf(ops + n, "%s", alpha[idx[i]]); }
            do_rle_stream(h, w, d, dn, ops);
            int p = len - 1;
            while (p >= 0 && ++idx[p] == 6) { idx[p] = 0; p--; }
            if (p < 0) break;
        }
    }
}

/* every put / put_repeat / flush history of at most `depth` calls over a small alphabet (flushes anywhere),
 * each followed by a final flush */
static void all_enc_histories(hctx* h, int w, int depth) {
    static const char* alpha[] = {"f", "p0", "p1", "r1x3", "r0x8", "r1x9"};
    int idx[8]; char ops[160];
    for (int len = 0; len <= depth; len++) {
        memset(idx, 0, sizeof idx);
        for (;;) {
            size_t n = 0; ops[0] = 0;
            for (int i = 0; i < len; i++) n += (size_t)sprintf(ops + n, "%s.", alpha[idx[i]]);
            ops[n++] = 'f'; ops[n] = 0;
            do_rle_encops(h, w, ops);
            int p = len - 1;
            while (p >= 0 && ++idx[p] == 6) { idx[p] = 0; p--; }
            if (p < 0) break;
        }
    }
}
/* a random history with flushes anywhere; values from a small alphabet below 2^w so that runs form */
static void rand_enc_history(hctx* h, int w, char* ops, size_t cap) {
    static const int reps[] = {0, 1, 2, 6, 7, 8, 9, 15, 16, 17, 40};
    uint32_t m = wmask(w); uint32_t al[3] = {0, m, m ? (uint32_t)h_below(h, (uint64_t)m + 1) : 0};
    int len = 1 + (int)h_below(h, 14); size_t n = 0;
    for (int i = 0; i < len && n + 40 < cap; i++) {
        if (i) ops[n++] = '.';
        switch (h_below(h, 4)) {
        case 0: ops[n++] = 'f'; break;
        case 1: n += (size_t)sprintf(ops + n, "r%ux%d", al[h_below(h, 3)], reps[h_below(h, sizeof reps / sizeof *reps)]); break;
        default: n += (size_t)sprintf(ops + n, "p%u", al[h_below(h, 3)]); break;
        }
    }
    if (h_chance(h, 4, 5)) { ops[n++] = '.'; ops[n++] = 'f'; }
    ops[n] = 0;
}

static void gen_rle(hctx* h) {
    enum { MAXV = 400, MAXB = 4096 };
    uint32_t* vals = (uint32_t*)h_alloc(MAXV * sizeof(uint32_t));
    uint32_t* exp = (uint32_t*)h_alloc(MAXV * sizeof(uint32_t));
    int16_t* lev = (int16_t*)h_alloc(MAXV * sizeof(int16_t));
    uint8_t* buf = h_alloc(MAXB);
    char ops[256];
    long scale = h->thorough ? 12 : 4;

    /* --- RLE encoder: fixed regression witnesses first (F1, F30, F31) --- */
    { static const uint32_t f1[] = {1, 0, 1, 1, 1, 1, 1, 1, 1, 1, 1, 1, 0};          /* F1 */
      do_rle_enc(h, 1, f1, 13, 0);
      int16_t l1[13]; for (int i = 0; i < 13; i++) l1[i] = (int16_t)f1[i];
      do_lev_enc(h, 1, l1, 13, 0);
      do_rle_encops(h, 1, "p1.p0.r1x10.f");                                            /* F1 on the flush path */
      do_rle_encops(h, 3, "p1.p2.p3.r5x8.p1.f");
      do_rle_encops(h, 3, "r5x3.f.r5x2.p6.f");                                         /* put after flush */
      /* run headers at the varint length boundaries (count << 1 = 2^7, 2^14, 2^21), alone and behind a bit-packed prefix;
       * put_repeat as the very FIRST call (also of value 0, the encoder's initial prev_value), then other values */
      { static const char* const rb[] = { "r1x63.f", "r1x64.f", "r1x65.f", "r1x8191.f", "r1x8192.f", "r1x8193.f", "p0.p1.p0.r1x8197.f",
                                          "r2x16383.p1.f", "r2x16384.p1.f", "r1x1048575.f", "r1x1048576.f", "r1x1048577.p0.f",
                                          "r0x10.r1x10.f", "r0x10.p1.f", "r0x3.p0.p1.f", "r0x8.f", "r0x9.r0x9.p2.f", "r0x1.r1x1.f" };
        for (unsigned i = 0; i < sizeof rb / sizeof rb[0]; i++) do_rle_encops(h, 2 + (int)(i % 3), rb[i]); }
      do_rle_bigrun(h, 3, 5, 2147483647ll); do_rle_bigrun(h, 3, 5, 2147483648ll);      /* F30 */
      do_rle_bigrun(h, 9, 300, 4294967296ll + 9); do_rle_bigrun(h, 0, 0, 6442450941ll);
      static const uint8_t f31[] = {0x00, 0x05, 0x02, 0x03};                           /* F31 */
      static const uint32_t e31[] = {3};
      do_rle_dec(h, 3, 1, f31, 4, e31, 1, "emptyrun");
      do_lev_dec(h, 3, 1, f31, 4);
    }


    /* --- varints / zigzag: boundaries of every byte length, then random --- */
    for (int k = 0; k <= 32; k++) { uint32_t b = k == 32 ? 0xFFFFFFFFu : (1u << k); do_vi32(h, b); do_vi32(h, b - 1); do_vi32(h, b + 1); }
    for (int k = 0; k <= 64; k++) { uint64_t b = k == 64 ? ~0ull : (1ull << k); do_vi64(h, b); do_vi64(h, b - 1); do_vi64(h, b + 1); }
    for (long i = 0; i < 200 * scale; i++) { do_vi32(h, (uint32_t)h_next(h) >> h_below(h, 32)); do_vi64(h, h_next(h) >> h_below(h, 64)); }
    for (long i = 0; i < 300 * scale; i++) {            /* arbitrary bytes: truncated, over-long, too long */
        size_t n = (size_t)h_below(h, 13);
        for (size_t j = 0; j < n; j++) buf[j] = h_chance(h, 2, 3) ? (uint8_t)(h_next(h) | 0x80) : (uint8_t)(h_next(h) & 0x7F);
        if (n && h_chance(h, 2, 3)) buf[n - 1] &= 0x7F;
        do_vid(h, buf, n, 0); do_vid(h, buf, n, 1);
    }
    { static const int32_t z[] = {0, -1, 1, -2, 2, 2147483647, -2147483647 - 1, 1073741824, -1073741824};
      for (size_t i = 0; i < sizeof z / sizeof z[0]; i++) do_zz32(h, z[i]);
      static const int64_t y[] = {0, -1, 1, -2, 2, INT64_MAX, INT64_MIN, 4611686018427387904ll, -4611686018427387904ll};
      for (size_t i = 0; i < sizeof y / sizeof y[0]; i++) do_zz64(h, y[i]);
      for (long i = 0; i < 200 * scale; i++) { do_zz32(h, (int32_t)h_next(h) >> h_below(h, 32)); do_zz64(h, (int64_t)h_next(h) >> h_below(h, 64)); } }

    /* --- bit packing: every width, all-ones / zeros / single-bit / random groups; tails --- */
    for (int w = 0; w <= 32; w++) {
        for (int k = 0; k < (h->thorough ? 40 : 8); k++) {
            uint32_t v8[8];
            for (int i = 0; i < 8; i++) v8[i] = k == 0 ? 0 : k == 1 ? wmask(w) : k == 2 ? (i & 1 ? wmask(w) : 0) :
                                               k == 3 ? (uint32_t)h_next(h) /* unmasked: packer must mask */ : rand_val(h, w);
            do_bp8(h, w, v8);
            h_fill(h, buf, 32, k < 5 ? k : 0);
            do_bu8(h, w, buf);
        }
    }

    /* --- small exhaustive scopes --- */
    { static const uint32_t l01[] = {0, 1};
      static const uint32_t l012[] = {0, 1, 3};
      exhaustive(h, 1, l01, 2, h->thorough ? 12 : 8, 1);
      exhaustive(h, 2, l012, 3, h->thorough ? 12 : 7, 1);
      if (h->thorough) {
          static const int ws[] = {7, 8, 9, 32};
          for (int k = 0; k < 4; k++) { uint32_t l3[3] = {0, 1, wmask(ws[k])}; exhaustive(h, ws[k], l3, 3, 10, ws[k] <= 9);
              /* lengths 11 (all four widths) and 12 (width 8), values only: the <= 12 scope at all four widths with levels
               * would be 7 M lines */
              exhaustive_from(h, ws[k], l3, 3, 11, ws[k] == 8 ? 12 : 11, 0); }
      } }

    /* --- encoder histories with flushes anywhere: exhaustive small scope, then random --- */
    all_enc_histories(h, 1, h->thorough ? 6 : 4);
    all_enc_histories(h, 3, h->thorough ? 5 : 3);
    for (long i = 0; i < 150 * scale; i++) {
        int w = i < 33 ? (int)i : rand_width(h);
        rand_enc_history(h, w, ops, sizeof ops);
        do_rle_encops(h, w, ops);
    }

    /* --- run-structured random sequences at every width --- */
    for (long i = 0; i < 600 * scale; i++) {
        int w = i < 66 ? (int)(i % 33) : rand_width(h);
        size_t n = gen_seq(h, w, vals, MAXV);
        do_rle_enc(h, w, vals, n, 0);
        if (h_chance(h, 1, 3)) {                        /* the same through put / put_repeat / flush */
            size_t p = 0, j = 0;
            while (j < n && p + 40 < sizeof ops) {
                size_t k = j; while (k < n && vals[k] == vals[j]) k++;
                if (p) ops[p++] = '.';
                if (k - j > 1 && h_chance(h, 1, 2)) p += (size_t)sprintf(ops + p, "r%ux%zu", vals[j], k - j), j = k;
                else p += (size_t)sprintf(ops + p, "p%u", vals[j]), j++;
            }
            if (p) ops[p++] = '.';
            ops[p++] = 'f'; ops[p] = 0;
            do_rle_encops(h, w, ops);
        }
        if (w <= 16 && h_chance(h, 1, 2)) {             /* levels: non-negative int16 below 2^w */
            for (size_t k = 0; k < n; k++) lev[k] = (int16_t)(vals[k] & 0x7FFF);
            do_lev_enc(h, w, lev, n, 0);
        }
    }
    for (long i = 0; i < 60 * scale; i++) {             /* levels at widths 16..32, values < 2^15 */
        int w = 16 + (int)h_below(h, 17);
        size_t n = gen_seq(h, 15, vals, 200);
        for (size_t k = 0; k < n; k++) lev[k] = (int16_t)vals[k];
        do_lev_enc(h, w, lev, n, 0);
    }

    /* --- decoder on real encoder output: every prefix, one flipped byte, appended garbage --- */
    for (long i = 0; i < 60 * scale; i++) {
        int w = rand_width(h);
        size_t n = gen_seq(h, w, vals, 80);
        carquet_buffer_t b; carquet_buffer_init(&b);
        carquet_rle_encode_all(vals, (int64_t)n, w, &b);
        size_t bn = b.size < MAXB - 8 ? b.size : MAXB - 8;
        if (bn) memcpy(buf, b.data, bn);
        carquet_buffer_destroy(&b);
        for (size_t cut = 0; cut <= bn; cut++) {
            if (bn > 24 && cut > 8 && cut + 8 < bn && !h_chance(h, 1, 4)) continue;
            do_rle_dec(h, w, n, buf, cut, NULL, 0, "prefix"); st_mutated++;
            if (h_chance(h, 1, 3)) { for (size_t k = 0; k < n; k++) lev[k] = 0; do_lev_dec(h, w, n, buf, cut); }
        }
        if (bn) {
            size_t at = (size_t)h_below(h, bn); uint8_t old = buf[at];
            buf[at] ^= (uint8_t)(1u << h_below(h, 8));
            do_rle_dec(h, w, n, buf, bn, NULL, 0, "flip"); do_lev_dec(h, w, n, buf, bn); st_mutated++;
            gen_ops_string(h, ops, sizeof ops, 1 + (int)h_below(h, 6), 20);
            do_rle_stream(h, w, buf, bn, ops);
            buf[at] = old;
        }
        size_t extra = 1 + (size_t)h_below(h, 6);
        for (size_t k = 0; k < extra; k++) buf[bn + k] = (uint8_t)h_next(h);
        do_rle_dec(h, w, n, buf, bn + extra, vals, n, "garbage-after");
        do_rle_dec(h, w, n + 1 + (size_t)h_below(h, 20), buf, bn, NULL, 0, "ask-more");
        gen_ops_string(h, ops, sizeof ops, 1 + (int)h_below(h, 8), 24);
        do_rle_stream(h, w, buf, bn, ops);
        /* prefixed levels around the length boundary */
        if (bn + 8 < MAXB) {
            memmove(buf + 4, buf, bn);
            for (int delta = -1; delta <= 1; delta++) {
                if ((long)bn + delta < 0) continue;
                carquet_write_u32_le(buf, (uint32_t)((long)bn + delta));
                do_lev_pfx(h, w, n, buf, 4 + bn);
            }
            for (size_t tiny = 0; tiny < 4; tiny++) do_lev_pfx(h, w, n, buf, tiny);
        }
    }

    /* --- streams generated from the grammar (forms carquet's encoder never emits) --- */
    for (long i = 0; i < 500 * scale; i++) {
        int w = i < 66 ? (int)(i % 33) : rand_width(h);
        size_t ne = 0; int lastp = 0;
        size_t bn = gen_stream(h, w, buf, MAXB - 8, exp, MAXV, &ne, &lastp);
        size_t n = ne;
        if (lastp && ne >= 8 && h_chance(h, 1, 2)) n = ne - (size_t)h_below(h, 8);       /* padded final group */
        else if (h_chance(h, 1, 6)) n = (size_t)h_below(h, ne + 1);                          /* stop early */
        else if (h_chance(h, 1, 8)) n = ne + 1 + (size_t)h_below(h, 9);                      /* ask for more */
        do_rle_dec(h, w, n, buf, bn, exp, n < ne ? n : ne, "grammar"); st_grammar++;
        if (w <= 16) do_lev_dec(h, w, n, buf, bn);
        gen_ops_string(h, ops, sizeof ops, 1 + (int)h_below(h, 10), 30);
        do_rle_stream(h, w, buf, bn, ops);
    }

    /* --- random bytes --- */
    for (long i = 0; i < 300 * scale; i++) {
        int w = rand_width(h);
        size_t bn = (size_t)h_below(h, 40);
        for (size_t k = 0; k < bn; k++) buf[k] = h_chance(h, 1, 2) ? (uint8_t)h_below(h, 20) : (uint8_t)h_next(h);
        size_t n = (size_t)h_below(h, 120);
        do_rle_dec(h, w, n, buf, bn, NULL, 0, "random"); st_random++;
        do_lev_dec(h, w, n, buf, bn);
        gen_ops_string(h, ops, sizeof ops, (int)h_below(h, 8), 40);
        do_rle_stream(h, w, buf, bn, ops);
    }

    /* --- all call histories up to depth 3 (quick) / 5 (thorough) on three fixed streams --- */
    { static const uint8_t s1[] = {0x03, 0xFD, 0x08, 0x01, 0x03, 0x00};                     /* packed, rle 4, packed */
      static const uint8_t s2[] = {0x05, 0x88, 0xC6, 0xFA, 0x88, 0xC6, 0xFA, 0x00, 0x07, 0x14, 0x02, 0x01}; /* 2 groups, empty rle, rle 10, empty packed */
      static const uint8_t s3[] = {0x12, 0x2C, 0x01, 0x03, 0xFF, 0x01};                     /* width 9: rle 9, truncated group */
      int depth = h->thorough ? 5 : 3;
      all_histories(h, 1, s1, sizeof s1, depth);
      all_histories(h, 3, s2, sizeof s2, depth);
      all_histories(h, 9, s3, sizeof s3, depth); }

    /* --- last (they abort under ASan on the pinned tree): bitpack_32 / bitunpack_32 with tails on
     *     packed_size buffers (F32), length prefix that wraps in 32 bits (F33) --- */
    for (int w = 0; w <= 32; w++) {
        for (size_t n = 0; n <= (h->thorough ? 40u : 18u); n++) {
            for (size_t i = 0; i < n; i++) vals[i] = rand_val(h, w);
            do_bp(h, w, vals, n);
            size_t dn = carquet_packed_size(n, w);
            h_fill(h, buf, dn, 0);
            do_bu(h, w, n, buf, dn);
        }
    }
    { static const uint8_t f33[] = {0xFF, 0xFF, 0xFF, 0xFF, 0x02, 0x01};
      do_lev_pfx(h, 1, 5, f33, 6);
      static const uint8_t f33b[] = {0xFC, 0xFF, 0xFF, 0xFF, 0x02, 0x01};
      do_lev_pfx(h, 1, 5, f33b, 6); }

    static const char* names[] = {"vi32", "vi64", "vid", "zz", "bp8", "bu8", "bp", "bu", "rle_enc", "lev_enc",
                                  "rle_encops", "rle_bigrun", "rle_dec", "rle_stream", "lev_dec", "lev_pfx"};
    for (int i = 0; i < 16; i++) fprintf(h->out, "#stat op_%s %ld\n", names[i], st_ops[i]);
    for (int w = 0; w <= 32; w++) fprintf(h->out, "#stat width_%d %ld\n", w, st_width[w]);
    fprintf(h->out, "#stat decode_short %ld\n#stat decoder_error_status %ld\n#stat exhaustive_sequences %ld\n", st_short, st_err, st_exh);
    fprintf(h->out, "#stat grammar_streams %ld\n#stat mutated_streams %ld\n#stat random_streams %ld\n", st_grammar, st_mutated, st_random);
    free(vals); free(exp); free(lev); free(buf);
}

/* ---------- replay ---------- */
static uint32_t* list_u32(const char* v, size_t* n) {
    int64_t* a = h_list(v, n);
    uint32_t* r = (uint32_t*)h_alloc(*n * sizeof(uint32_t));
    for (size_t i = 0; i < *n; i++) r[i] = (uint32_t)a[i];
    free(a); return r;
}
static int replay_rle(hctx* h, const h_line* l) {
    const char* op = l->op;
    int w = (int)h_ll(h_in(l, "w"));
    if (!strcmp(op, "vi32")) { do_vi32(h, (uint32_t)strtoull(h_in(l, "v"), NULL, 10)); return 1; }
    if (!strcmp(op, "vi64")) { do_vi64(h, strtoull(h_in(l, "v"), NULL, 10)); return 1; }
    if (!strcmp(op, "vi32d") || !strcmp(op, "vi64d")) {
        size_t n; uint8_t* d = h_unhex(h_in(l, "data"), &n); do_vid(h, d, n, op[2] == '6'); free(d); return 1; }
    if (!strcmp(op, "zz32")) { do_zz32(h, (int32_t)h_ll(h_in(l, "v"))); return 1; }
    if (!strcmp(op, "zz64")) { do_zz64(h, (int64_t)h_ll(h_in(l, "v"))); return 1; }
    if (!strcmp(op, "bp8")) { size_t n; uint32_t* v = list_u32(h_in(l, "vals"), &n);
        uint32_t v8[8] = {0}; for (size_t i = 0; i < n && i < 8; i++) v8[i] = v[i]; do_bp8(h, w, v8); free(v); return 1; }
    if (!strcmp(op, "bu8")) { size_t n; uint8_t* d = h_unhex(h_in(l, "data"), &n);
        uint8_t in[32] = {0}; memcpy(in, d, n < 32 ? n : 32); do_bu8(h, w, in); free(d); return 1; }
    if (!strcmp(op, "bp")) { size_t n; uint32_t* v = list_u32(h_in(l, "vals"), &n); do_bp(h, w, v, n); free(v); return 1; }
    if (!strcmp(op, "bu")) { size_t n; uint8_t* d = h_unhex(h_in(l, "data"), &n);
        do_bu(h, w, (size_t)h_ll(h_in(l, "n")), d, n); free(d); return 1; }
    if (!strcmp(op, "rle_enc")) { size_t n; uint32_t* v = list_u32(h_in(l, "vals"), &n); do_rle_enc(h, w, v, n, 0); free(v); return 1; }
    if (!strcmp(op, "lev_enc")) { size_t n; int64_t* a = h_list(h_in(l, "vals"), &n);
        int16_t* v = (int16_t*)h_alloc(n * sizeof(int16_t)); for (size_t i = 0; i < n; i++) v[i] = (int16_t)a[i];
        do_lev_enc(h, w, v, n, 0); free(a); free(v); return 1; }
    if (!strcmp(op, "rle_encops")) { do_rle_encops(h, w, h_in(l, "ops")); return 1; }
    if (!strcmp(op, "rle_bigrun")) { do_rle_bigrun(h, w, (uint32_t)h_ll(h_in(l, "v")), h_ll(h_in(l, "n"))); return 1; }
    if (!strcmp(op, "rle_dec")) { size_t n, ne = 0; uint8_t* d = h_unhex(h_in(l, "data"), &n);
        uint32_t* e = h_in(l, "exp") ? list_u32(h_in(l, "exp"), &ne) : NULL;
        do_rle_dec(h, w, (size_t)h_ll(h_in(l, "n")), d, n, e, ne, h_in(l, "kind")); free(d); free(e); return 1; }
    if (!strcmp(op, "rle_stream")) { size_t n; uint8_t* d = h_unhex(h_in(l, "data"), &n);
        const char* o = h_in(l, "ops"); do_rle_stream(h, w, d, n, (o && strcmp(o, "-")) ? o : ""); free(d); return 1; }
    if (!strcmp(op, "lev_dec")) { size_t n; uint8_t* d = h_unhex(h_in(l, "data"), &n);
        do_lev_dec(h, w, (size_t)h_ll(h_in(l, "n")), d, n); free(d); return 1; }
    if (!strcmp(op, "lev_pfx")) { size_t n; uint8_t* d = h_unhex(h_in(l, "data"), &n);
        do_lev_pfx(h, w, (size_t)h_ll(h_in(l, "n")), d, n); free(d); return 1; }
    return 0;
}

const h_component comp_rle = { "rle", gen_rle, replay_rle };
