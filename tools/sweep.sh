#!/bin/sh
# tools/sweep.sh <tier> <seeds...>: run every claimed check at the given tier and seeds; one summary line each
tier="$1"; shift
python3 tools/setup.py >/dev/null 2>&1
for seed in "$@"; do
  for p in $(python3 -c "import json;print(' '.join(c['property_id'] for c in json.load(open('MANIFEST.json'))['checks']))"); do
    out=$(VERIF_SEED=$seed python3 tools/check.py --property $p --tier $tier 2>&1 | tail -2 | tr '\n' ' ')
    echo "seed=$seed $p: $out"
  done
done
