#!/usr/bin/env python3
"""Regenerate MANIFEST.json from tools/props.py (single source of truth for what is claimed)."""
import json, os, sys
sys.path.insert(0, os.path.dirname(os.path.abspath(__file__)))
from props import PROPS, NOT_APPLICABLE, HOOK_COMMITS, HOLD
V = os.path.dirname(os.path.dirname(os.path.abspath(__file__)))
ALL = [f"C{i:02d}" for i in range(1, 21)]
checks = []
for pid in ALL:
    if pid not in PROPS:
        continue
    c = PROPS[pid]
    checks.append(dict(
        property_id=pid,
        quick_cmd=f"python3 tools/check.py --property {pid} --tier quick",
        thorough_cmd=f"python3 tools/check.py --property {pid} --tier thorough",
        evidence_file=f"/verif/evidence/{pid}.json",
        replay_cmd_template="python3 tools/check.py --replay {path}",
        engine="lean4-proof+correspondence",
        level_claimed=dict(category=c["level"], text=c["text"], design_ref=c.get("design_ref", f"DESIGN.md §3 {pid}")),
        level_note=c["level_note"],
        technique=c["technique"]))
na = [dict(property_id=p, reason=NOT_APPLICABLE.get(p) or HOLD.get(p, "check not built yet (work in progress; the property is within reach of the technique, see DESIGN.md §3)"))
      for p in ALL if p not in PROPS]
m = dict(
    version=1,
    setup_cmd="python3 tools/setup.py",
    hooks=dict(guard="CARQUET_VERIF",
               enable="checks compile /repo/src/**/*.c themselves (tools/vlib.py) with -DCARQUET_VERIF -fsanitize=address,undefined; the repo's own build never defines it",
               baseline_off_cmd="cmake -G Ninja -S /repo -B /repo/_build && cmake --build /repo/_build -j16 && ctest --test-dir /repo/_build -j8 --timeout 900",
               source_commits=HOOK_COMMITS, add_only=True),
    engines=[dict(name="lean4-proof+correspondence", path="/verif/lean, /verif/harness, /verif/tools/check.py",
                  serves_properties=[c["property_id"] for c in checks],
                  kind_free_text="Lean 4 theorems about hand-written executable models (Spec/Impl), tied to /repo by a translator for tables/constants and a differential-execution correspondence harness (ASan/UBSan) on every run")],
    checks=checks,
    notes="See DESIGN.md. Evidence is rewritten by every run. KNOWN_FINDINGS.txt lists open findings (with witnesses) and fixed defects.",
    not_applicable=na)
json.dump(m, open(os.path.join(V, "MANIFEST.json"), "w"), indent=1)
print(f"{len(checks)} checks, {len(na)} not claimed")
