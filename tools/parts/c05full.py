_TEXT = ("full-strength C05, proved: for every schema of flat REQUIRED / OPTIONAL / REPEATED columns (at least one; FIXED_LEN_BYTE_ARRAY with a "
         "positive length), codec UNCOMPRESSED / SNAPPY / LZ4 / LZ4_RAW, page size and write history that respects the documented "
         "preconditions of carquet_writer_write_batch (arrays as long as the counts say, definition and repetition levels 0/1, values of the "
         "column's type, every column of a row group the same number of rows - the rows of a REPEATED column are its entries with "
         "repetition level 0 - and starting with repetition level 0) and whose written file fits the C integer types "
         "(file below 2 GiB, at most 32768 row groups, every chunk below 2^31 values and 2^31 uncompressed bytes): if every call and the close returned OK, then the independent "
         "whole-file reader Spec.File.read (written from the format documents, no Impl import) with strict tiling ACCEPTS the file "
         "of the byte-exact writer model and returns EXACTLY the table the history denotes (C05_spec_reader_accepts_writer: "
         "Spec.File.read (fileOf ...).1 = ok (specTableOf cols ops)). The proof composes, stage by stage as the reader proceeds, "
         "the writer theorems (C05_written_table + further invariants: page-builder well-formedness, chunk metadata fields, "
         "row-group num_rows = rows of column 0 - entries with repetition level 0 when that column is REPEATED, after fix F64) with the component theorems: envelope; footer = canonical compact Thrift of the "
         "parquet.thrift value (C13) -> generic decoder -> required-field extraction; schema tree; chunk ranges tile [4, footer) "
         "exactly; page header (C13); CRC-32 = bit-serial IEEE (C14); SNAPPY / LZ4 bodies decoded by the Spec decoders (C10); RLE "
         "levels and PLAIN values of all eight types decoded by the Spec decoders (C12); the page writer's running min / max and null "
         "count are true bounds in Spec.Order, so the reader's truth check of header statistics accepts them (C16); value "
         "and row counts pages -> chunk -> row group -> file. The driver's run-time check (op wrspec) compares the real writer's "
         "file against the same function specTableOf. Separate statements: page stage, chunk stage (any list of well-formed pages), "
         "footer stage.")
PART = {
  "C05": dict(
    imports=["Carquet.Properties.C05.SpecWriter"],
    obligations=["Carquet.Properties.C05.C05_spec_reader_accepts_writer",
                 "Carquet.Properties.C05.C05_spec_reader_accepts_writer_sizes",
                 "Carquet.Properties.C05.C05_spec_reader_reads_page",
                 "Carquet.Properties.C05.C05_spec_reader_reads_chunk",
                 "Carquet.Properties.C05.C05_spec_reader_reads_footer"],
    components=[],
    rule="",
    assumptions=["C05_spec_reader_accepts_writer is about Impl.Writer.fileOf (Impl.FileReal.deps []); it speaks for the real "
                 "writer through the byte-equality tie of op `wr` (component `file`)",
                 "FileSizesOk: the written file is shorter than 2 GiB, has at most 32768 row groups, and every column chunk has fewer "
                 "than 2^31 values and 2^31 uncompressed bytes (model arithmetic is unbounded Nat, the C code keeps these in "
                 "int32_t / int16_t fields)",
                 "flat columns (what carquet_schema_add_column builds at the top level): REQUIRED, OPTIONAL and, since component rep2, "
                 "REPEATED (fixes F60: max_def_level, F64: num_rows of a row group whose first column is REPEATED); nested "
                 "schemas are not written by carquet's writer (add_column_internal takes the leaves as flat columns)"],
    text=_TEXT,
  ),
}
