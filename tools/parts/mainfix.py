PART = {
  "C04": dict(
    imports=["Carquet.Properties.C04.BatchRetry", "Carquet.Properties.C04.DictScan"],
    obligations=["Carquet.Properties.C04." + t for t in (
        "C04_batch_next_never_ub", "C04_regression_F96", "C04_dict_scan_entries_in_page", "C04_regression_F95")],
    components=[],
    fidelity={"Impl.BatchReader.next (F96)": "exact: the NULL test on col_readers[0] and the row-group increment taken back after a failed open_row_group_readers; pinned code kept as nextPreFixF96",
              "Impl.Reader.dictScan (F95)": "exact for the repaired scan (entry size in size_t); pinned 32-bit sum kept as dictScanPreFixF95"},
    rule="c04: after the batch reader reports an error or the end, the child calls carquet_batch_reader_next twice more (valid calls); every BYTE_ARRAY value handed out by a column reader is read byte by byte and must have a non-negative length; directed BYTE_ARRAY dictionaries whose last entry announces 2^32 - k bytes (dicthugelen)",
    text="(F95 / F96) the batch reader can be asked again after a failed call: for every state with a projected column the repaired carquet_batch_reader_next returns a status and never dereferences a missing column reader (C04_batch_next_never_ub; the pinned code did, C04_regression_F96); every BYTE_ARRAY dictionary entry the repaired scan accepts lies inside the page (C04_dict_scan_entries_in_page; the pinned 32-bit sum accepted entries announcing 2^32 - k bytes, C04_regression_F95)",
  ),
  "C05": dict(
    imports=["Carquet.Properties.C05.BrokenFlush", "Carquet.Properties.C05.BrokenBatch"],
    obligations=["Carquet.Properties.C05.BrokenFlush.C05_failed_flush_poisons_close", "Carquet.Properties.C05.BrokenFlush.C05_regression_F97",
                 "Carquet.Properties.C05.BrokenBatch.C05_failed_batch_poisons_close", "Carquet.Properties.C05.BrokenBatch.C05_rejected_batch_harmless",
                 "Carquet.Properties.C05.BrokenBatch.C05_regression_F98"],
    components=["c05alloc"],
    fidelity={"Properties.C05.BrokenFlush (F97): status flow of flush_row_group / new_row_group / close with respect to writer->broken": "structural (what an attempt to finish a row group does is a parameter)",
              "Properties.C05.BrokenBatch (F98): the same flow extended by carquet_writer_write_batch (a failure other than INVALID_ARGUMENT is recorded in writer->broken)": "structural (the status the row-group writer returns for a batch is a parameter)"},
    text="(F97 / F98) after a row-group flush that failed half-way, and after a write_batch that failed past its argument checks, no later flush and no close reports OK, whatever calls follow (C05_failed_flush_poisons_close, C05_failed_batch_poisons_close; a batch refused by the argument checks changes nothing: C05_rejected_batch_harmless; the pinned writer repeated the flush, or carried on after the half-taken batch, and reported an invalid file complete: C05_regression_F97, C05_regression_F98, both found by the c05alloc component)",
    rule="c05alloc: a well-formed history executed with ONE allocation failure inside a row-group flush or the close (every k-th request of those calls; quick: every (K/25)-th), a failed carquet_writer_new_row_group is called again; the same with the failure allowed inside write_batch calls too (wb=1; the caller carries on with the rest of the history); whenever close said OK the file goes to the independent reader (`wrspec`: the table of the history if every call said OK, structural validity otherwise)",
  ),
  "C03": dict(
    imports=[], obligations=[], components=["stats"],
    fidelity={"Impl.Stats / Impl.ReaderApi statistics accessors (dependency: chunk statistics are metadata, and metadata must be the same in the three modes)": "exact"},
    rule="stats (shared with C16): footers given chunk statistics in every placement of the Statistics fields (new, deprecated only, mixed) are read through carquet_reader_open_buffer, stdio and mmap: column_statistics (statuses, presence flags, bounds byte for byte) and row_group_matches verdicts must agree (p_stat_modes_agree)",
  ),
  "C06": dict(
    imports=[], obligations=[], components=["rle"],
    fidelity={"Impl.Rle (dependency: the dictionary indices and levels of every page go through the hybrid decoder)": "exact"},
    rule="rle (shared with C11 / C12 / C08): hybrid streams of every bit width 0..32 - RLE runs whose repeated value needs 1, 2, 3 or 4 bytes, bit-packed groups, mixed - decoded by the real decoders (carquet_rle_decode_all is the decoder of the dictionary indices of a data page) and compared with the model the whole-file theorem composes",
  ),
  "C07": dict(
    imports=["Carquet.Properties.C07.FailureFlag"],
    obligations=["Carquet.Properties.C07.FailureFlag.C07_failure_flag_race_free", "Carquet.Properties.C07.FailureFlag.C07_repaired_loop_race_free",
                 "Carquet.Properties.C07.FailureFlag.C07_regression_F99"],
    components=[],
    fidelity={"Properties.C07.FailureFlag (F99): the access history of the batch reader's shared failure flag inside the parallel loop": "structural (which worker fails is a parameter; the tie is the ThreadSanitizer run of component partsan)"},
    text="(F99) the failure flag shared by the column workers is accessed atomically inside the parallel loop: no interleaving of worker iterations has a data race on it (C07_repaired_loop_race_free; the pinned plain bool raced as soon as two workers failed or one failed while another tested the flag: C07_regression_F99, found by the thorough tier's ThreadSanitizer run)",
  ),
  "C17": dict(
    imports=[], obligations=[], components=["refread"], pregen={"refread": "reffiles"},
    rule="refread (shared with C06): the reference files with nested schemas (repeated / optional groups to depth 3) are read column by column through carquet_reader_get_column in three modes: every leaf the schema lists must be readable as a column and deliver the stored levels",
  ),
}
