PART = {
  "C04": dict(
    imports=["Carquet.Properties.C04.BatchRetry", "Carquet.Properties.C04.DictScan"],
    obligations=["Carquet.Properties.C04." + t for t in (
        "C04_batch_next_never_ub", "C04_regression_F96", "C04_dict_scan_entries_in_page", "C04_regression_F95")],
    components=[],
    fidelity={"Impl.BatchReader.next (F96)": "exact: the NULL test on col_readers[0] and the row-group increment taken back after a failed open_row_group_readers; pinned code kept as nextPreFixF96",
              "Impl.Reader.dictScan (F95)": "exact for the repaired scan (entry size in size_t); pinned 32-bit sum kept as dictScanPreFixF95"},
    rule="c04: after the batch reader reports an error or the end, the child calls carquet_batch_reader_next twice more (valid calls); every BYTE_ARRAY value handed out by a column reader is read byte by byte and must have a non-negative length; directed BYTE_ARRAY dictionaries whose last entry announces 2^32 - k bytes (dicthugelen)",
    text="(F95 / F96) the batch reader can be asked again after a failed call: for every state with a projected column the repaired carquet_batch_reader_next returns a status and never dereferences a missing column reader (C04_batch_next_never_ub; the pinned code did, C04_regression_F96); every BYTE_ARRAY dictionary entry the repaired scan accepts lies inside the page (C04_dict_scan_entries_in_page; the pinned 32-bit sum accepted entries announcing 2^32 - k bytes, C04_regression_F95)",
  ),
}
