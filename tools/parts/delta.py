_RULE = ("delta: encoder ops on lengths {0,1,2,3,31..34,64..66,97,127..131,256..258,385,513} + random (<=600, thorough <=2600, "
         "incl. 1+128k±1) x 14 value patterns (constant, sequential, small deltas, full range, MIN/MAX alternating, "
         "wrap-around, ±MAX, width-directed 0/2^k-1 alternating and monotone for k in {1,7,16,30,31 | 1,30..33,62,63}, "
         "extremes, jumps, per-miniblock width changes, bits, decreasing) x int32/int64; capacities 0/39/40 and every "
         "capacity within [-3,+12] of the exact need; decoder ops on carquet's output, on an independent writer's streams "
         "(128/4 with lowered frame of reference, wider widths up to 64, junk width bytes, random padding; 9 other legal "
         "geometries), on mutations (truncate, bit flip, byte smash, trailing bytes, width bytes 65/255), on every header "
         "guard boundary and random bytes, with requested counts n-1,n,n+1,0,random,-1,n+200; byte arrays: 13 list lengths "
         "x 7 string patterns (empty, shared prefixes, identical, one long up to 70000, growing) x both encodings, work "
         "buffer sizes exact/±1/0, negative lengths, prefix > previous, prefix on first value, prefix INT32_MAX; "
         "values too long to print given by their lengths (ops dl_big/ds_big: uniform bytes; lengths 0,2^27,0 and "
         "variants for n = 2..6 and 130 — the inputs the old 10n+100 scratch buffer refused — plus list lengths "
         "1,2,3,5,6,127..130,256..258), tied on status, length-stream bytes and output size; decoder ops report the "
         "returned pointers as offsets (input / work buffer), tied to the instrumented models; "
         "distinct = distinct (op, inputs)")
_ASSUME = ["little-endian host", "num_values >= 0 and equal to the array length passed (API contract)",
           "carquet_bitpack_32/carquet_bitunpack_32 enter the delta model by their LSB-first behaviour on groups of 8 "
           "(tied here by the byte-exact correspondence; modelled loop by loop by the bit-packing component)",
           "malloc failure and output-buffer growth failure of the byte-array encoders are not modelled (C19)",
           "byte arrays are shorter than 2 GiB and have non-negative length (the int32_t length field of carquet_byte_array_t)"]
_TRUST = ["translate/gen_delta.py also translates the two scratch-capacity expressions of delta_length.c / delta_strings.c "
          "(unsigned + * / on literals and num_values) into Lean; anything else in those expressions is refused",
          "harness/ops_delta.c contains a second, independent writer of the format (cross-checked against Spec.Delta.decode on every run)"]
_IMPL = {"Impl.DeltaLength.decodeSlices / Impl.DeltaStrings.decodeAcc (decoders with pointers and copies as data)": "exact (proved equal to the decoders, offsets tied)",
         "Impl.Delta": "exact", "Impl.Delta.packBits/unpackBits (carquet_bitpack_32/bitunpack_32 as called with 32 values)": "abstract",
         "Impl.DeltaLength": "exact", "Impl.DeltaStrings": "exact"}

PART = {
  "C08": dict(
    imports=["Carquet.Properties.C08.Delta"],
    obligations=["Carquet.Properties.C08.C08_delta_writes_in_output_and_consumed_le",
                 "Carquet.Properties.C08.C08_delta_reads_in_input",
                 "Carquet.Properties.C08.C08_regression_F30",
                 "Carquet.Properties.C08.C08_delta_length_slices_in_input",
                 "Carquet.Properties.C08.C08_delta_strings_accesses_in_bounds"],
    components=["delta"], fidelity=_IMPL, rule=_RULE,
    assumptions=_ASSUME + ["heap behaviour is observed under ASan/UBSan with exact-size buffers, not proved"],
    trusted_base=_TRUST,
  ),
  "C11": dict(
    imports=["Carquet.Properties.C11.Delta"],
    obligations=["Carquet.Properties.C11.C11_delta_int32_roundtrip",
                 "Carquet.Properties.C11.C11_delta_int64_roundtrip",
                 "Carquet.Properties.C11.C11_delta_encode_succeeds",
                 "Carquet.Properties.C11.C11_delta_empty_edge",
                 "Carquet.Properties.C11.C11_delta_length_roundtrip",
                 "Carquet.Properties.C11.C11_delta_strings_roundtrip",
                 "Carquet.Properties.C11.C11_delta_bytes_encode_succeeds",
                 "Carquet.Properties.C11.C11_delta_length_roundtrip_total",
                 "Carquet.Properties.C11.C11_delta_strings_roundtrip_total",
                 "Carquet.Properties.C11.C11_regression_F61"],
    components=["delta"], fidelity=_IMPL, rule=_RULE, assumptions=_ASSUME, trusted_base=_TRUST,
  ),
  "C12": dict(
    imports=["Carquet.Properties.C12.Delta"],
    obligations=["Carquet.Properties.C12.C12_delta_constants_tied",
                 "Carquet.Properties.C12.C12_delta_impl_to_spec",
                 "Carquet.Properties.C12.C12_delta_spec_to_impl",
                 "Carquet.Properties.C12.C12_delta_spec_encoder_to_impl",
                 "Carquet.Properties.C12.C12_delta_spec_self_consistent",
                 "Carquet.Properties.C12.C12_delta_other_geometry_rejected",
                 "Carquet.Properties.C12.C12_regression_F13",
                 "Carquet.Properties.C12.C12_delta_length_impl_to_spec",
                 "Carquet.Properties.C12.C12_delta_length_spec_to_impl",
                 "Carquet.Properties.C12.C12_delta_strings_impl_to_spec",
                 "Carquet.Properties.C12.C12_delta_strings_spec_to_impl",
                 "Carquet.Properties.C12.C12_delta_bytes_impl_to_spec_total"],
    components=["delta"], fidelity=_IMPL, rule=_RULE, assumptions=_ASSUME, trusted_base=_TRUST,
  ),
}

# what the check delivers, in the component builder's words
PART['C11'].update(
    text='(delta part) DELTA_BINARY_PACKED int32/int64, DELTA_LENGTH_BYTE_ARRAY, DELTA_BYTE_ARRAY: decode(encode v) = v with consumed = |encoding| proved for all non-empty sequences the API can express (any length, wrap-around, extreme values) on exact models of the repaired code; the byte-array encoders are proved to succeed on every non-empty list (scratch capacity re-extracted from the source and proved sufficient; F61: the old 10n+100 refused lengths 0,2^27,0), so their round trips carry no condition on the encode status; the length-0 edge is stated as observed',
    level_note='Lean kernel; translator; harness (ASan/UBSan, exact-size buffers)',
    technique='Lean 4 proof (encoder and decoder both related to the format grammar) + byte-exact correspondence to the C code')
PART['C12'].update(
    text="(delta part) both directions against a reference decoder/grammar written from the Parquet encodings document: carquet's bytes decode to the input; every grammar stream of geometry 128/4 (any widths 0..64, junk width bytes, padding, lowered frame of reference) is decoded to its values; other legal geometries are rejected with an error",
    level_note='Lean kernel; translator; harness with an independent C writer of the format',
    technique='Lean 4 proof over a grammar shared by Spec decoder, Impl decoder and Impl encoder + correspondence')
PART['C08'].update(
    text='(delta part, partial) for the DELTA_BINARY_PACKED decoders: output count = requested count, consumed <= size, geometry after init is 128/4 so the group-wise bit reader stays inside the checked bytes; DELTA_LENGTH_BYTE_ARRAY: on arbitrary bytes the returned slices are consecutive, inside [end of length stream, consumed) and consumed <= size; DELTA_BYTE_ARRAY: every suffix read inside the input, every value inside the work buffer, every prefix copy inside the previous value (decoders instrumented with their accesses as data, proved equal to the plain decoders, offsets tied to the real pointers); heap safety itself is observed under ASan/UBSan on mutated, grammar-generated and random bytes',
    level_note='Lean kernel for the arithmetic; sanitizers for the heap',
    technique='Lean 4 invariants on the decoder state machine + sanitizer-instrumented correspondence')
