"""Component cfun2: second stage of the C -> Lean function translator (translate/gen_cfun.py).  On top of the pure scalar
functions of stage 1 (tools/parts/cfun.py) it translates functions that READ MEMORY: read-only array parameters and pointer
walks (an array is a list, a pointer an offset into the one array it derives from; every read contributes `offset < length`
to the generated `_defined` predicate), out-parameters and caller buffers (extra result components / functional updates),
constant tables (content read from the initialiser in the AST) and run-time tables (global state threaded through the
translated functions), `do` loops, `break`, loop nests.  The byte-level kernels of xxhash.c, bloom_filter.c, crc32.c, the
varint readers/writers, the typed statistics comparators and the specialised bit-unpackers are thereby regenerated from the
C source on every run, and link theorems (Properties/Cnn/CFun2.lean) prove them equal to the hand-written models.  Same
self-check component as stage 1 (`cfun`): array arguments travel as hex strings, are copied into exact-size heap buffers,
and the real function is called only where the generated `_defined` holds - a read the predicate wrongly allows is an ASan
abort."""

_TECH = ("Lean 4 proof over definitions regenerated from the C source by a clang-AST translator (arrays, pointers, "
         "out-parameters, tables) + differential self-check of the translator under ASan/UBSan")
_TRUST = ["clang-14's typed JSON AST of the current source (incl. the initialisers of constant tables)",
          "translate/gen_cfun.py stage 2 (arrays as lists, pointers as offsets into one base array, out-parameters as result "
          "components, globals as threaded state) and the memory part of lean/Carquet/Impl/CSem.lean (rd8/rd/ld16le/ld32le/"
          "ld64le/wr/wr8/inb); validated on every run against the compiled functions on exact-size heap buffers (component cfun, "
          "op cfun2) and by the synthetic functions of harness/cfun_synth.h"]
_ASSUME = ["little-endian LP64 host (the translator asks clang; `memcpy(&v, p, sizeof v)` and `*(const T*)p` are little-endian "
           "loads)",
           "distinct pointer parameters of a translated function do not alias; a pointer derives from exactly one array "
           "(the translator rejects anything else); an operand read through a cast to a wider type is suitably aligned at "
           "offset 0",
           "forming a pointer beyond the end of its array without dereferencing it (`p + 8 <= end`) is not counted as "
           "undefined behaviour (C11 6.5.6p8 would; no compiler or sanitizer does)"]
_RULE = ("cfun (op cfun2): for every stage-2 function the Lean side generates argument tuples - arrays with lengths around every "
         "stripe / word / varint boundary (0..13, 15..17, 31..34, 63..65, ..., 257) and contents random / zero / all-ones / "
         "continuation-bytes / small, integer arguments that are mostly the exact length of an array argument and sometimes "
         "one less / one more / far off, (p, end) pairs likewise, global tables of their fixed size - together with the "
         "generated `_defined` verdict; the harness copies every array into a heap buffer of exactly its size and calls the REAL "
         "function for defined tuples only; the driver compares every result component (return value, out-parameters, "
         "buffers after the call, global state) and evaluates the model side of the link theorems on the C results "
         "(model_link_*); distinct = distinct (function, arguments)")
_FID = {"Gen.CFun stage 2 (memory-reading kernels translated from C on every run)": "generated"}


def _p(pid, names, text):
    return dict(
        imports=[f"Carquet.Properties.{pid}.CFun2"],
        obligations=[f"Carquet.Properties.{pid}.{pid}_cfun_{n}" for n in names],
        components=["cfun"],
        pregen={"cfun": "cfun"},
        fidelity=_FID,
        rule=_RULE,
        assumptions=_ASSUME,
        trusted_base=_TRUST,
        text=text,
        technique=_TECH,
        level_note="Lean kernel; clang-14 AST; gen_cfun.py stage 2 + CSem.lean (self-checked against the compiled functions on "
                   "exact-size buffers every run)",
    )


def _wd(names):
    out = []
    for n in names:
        out += [n, n + "_defined"]
    return out


PART = {
  "C09": _p("C09", _wd(["snappy_read_varint"]),
            "translated-kernel tie (component cfun, stage 2): snappy.c snappy_read_varint (a (p, end) pointer pair, `*p++`, "
            "`p - start`, `*value` out-parameter) as translated from the current C source is proved equal to "
            "Impl.Snappy.readVarint (with the F25b overflow test) for every buffer, every read below `end`, no shift by 32 or "
            "more"),
  "C11": _p("C11", _wd(["decode_varint32", "decode_varint64", "encode_varint32", "encode_varint64", "rle_read_varint",
                        "read_uleb128", "bitunpack8_3bit"]) +
            ["read_u16_le", "read_u32_le", "read_u64_le", "read_i32_le", "read_i64_le", "read_le_defined", "read_le24",
             "read_le32", "bitunpack8_4bit", "bitunpack8_8bit", "read_le16", "read_le40", "read_le48", "read_le56",
             "bitunpack8_1bit", "bitunpack8_2bit", "bitunpack8_5bit", "bitunpack8_6bit", "bitunpack8_7bit",
             "bitunpack8_32_partial"],
            "translated-kernel tie (component cfun, stage 2): carquet_decode_varint32/64 (pointer + length + out-parameter + "
            "bytes-consumed result), carquet_encode_varint32/64 (writes into a caller buffer), rle.c read_varint, delta.c "
            "read_uleb128, the endian.h little-endian loads and bitpack.c read_le16..56 + all eight specialised carquet_bitunpack8_<k>bit as "
            "translated from the current C source are proved equal to Impl.Varint / Impl.Delta / Impl.Bitpack for every input "
            "buffer, with no read or write outside the buffers, no undefined shift and enough loop fuel; accepting a sixth "
            "varint byte makes the shift-count obligation fail"),
  "C14": _p("C14", ["crc32_init_tables", "crc32_init_tables_idem", "crc32_slicing_by_8", "crc32_update", "crc32"],
            "translated-kernel tie (component cfun, stage 2): src/util/crc32.c is translated whole - crc32_init_tables (two "
            "loop nests filling the global 8x256 table, translated as a state transformer and proved to produce exactly the "
            "model's table from any memory content), crc32_slicing_by_8 (8-byte main loop with two little-endian loads, "
            "byte tail `while (length--)` with `*data++`), carquet_crc32, carquet_crc32_update - and proved equal to "
            "Impl.Crc32 on every byte string and every reachable state of the lazily built table, every load inside "
            "data[0..length), every table index inside its row; C14_impl_eq_spec thereby rests on regenerated code"),
  "C16": _p("C16", ["compare_boolean", "compare_int32", "compare_int64", "compare_int96", "compare_defined",
                    "compare_int96_defined", "reader_comparators"],
            "translated-kernel tie (component cfun, stage 2): compare_boolean / int32 / int64 / int96 of metadata/statistics.c "
            "(loads through `*(const T*)p` and a `const uint32_t*` view) as translated from the current C source are proved "
            "equal to Impl.Stats.cmpBool / cmpI32 / cmpI64 / cmpI96, reading exactly 1 / 4 / 8 / 12 bytes of each operand; the "
            "comparators of reader/statistics.c are proved identical to them; compare_float / compare_double are outside the "
            "subset (floating point)"),
  "C20": _p("C20", _wd(["read64_le", "read32_le", "xxhash64", "bloom_block_insert", "bloom_block_check"]) + ["salt_table"],
            "translated-kernel tie (component cfun, stage 2): carquet_xxhash64 ITSELF (do-while stripe loop over four "
            "lanes, 8/4/1-byte tail steps, avalanche; pointers p/end/limit into the input) and its loads read64_le / "
            "read32_le, and bloom_filter_block_insert / _check with the SALT[8] table read from its initialiser in the AST, as "
            "translated from the current C source are proved equal to Impl.Xxh64.xxh64 for every byte string and seed and to "
            "the block loops of Impl.Bloom, with no read outside data[0..length) resp. the 8-word block and enough loop fuel; "
            "C20_xxh64_impl_eq_spec is thereby about regenerated code end to end"),
}
