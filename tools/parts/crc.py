PART = {
  "C14": dict(
    imports=["Carquet.Properties.C14.Crc"],
    obligations=["Carquet.Properties.C14.C14_poly_is_ieee"],
    components=["crc"],
    fidelity={"Impl.Crc32": "exact"},
    rule="crc: all lengths 0..257 (thorough 0..1025) x alignment x fill kind; all splits of strings <= 24 bytes + "
         "random splits; distinct = distinct (op, input bytes)",
    assumptions=["little-endian host (memcpy loads)", "ARM hardware CRC path not compiled on this host"],
    trusted_base=["zlib crc32() as C-side oracle"],
  ),
}
