PART = {
  "C14": dict(
    imports=["Carquet.Properties.C14.Crc"],
    obligations=["Carquet.Properties.C14." + t for t in (
        "C14_poly_is_ieee", "C14_table0_is_step8", "C14_impl_eq_spec", "C14_impl_update_eq_spec",
        "C14_update_composes", "C14_update_composes_impl", "C14_update_assoc", "C14_bit_serial",
        "C14_burst_detected", "C14_burst_detected_spec", "C14_burst_detected_xor",
        "C14_four_bytes_detected", "C14_single_byte_detected", "C14_single_bit_detected")],
    components=["crc", "pagecrc", "crccold"],
    fidelity={"Impl.Crc32": "exact"},
    rule="crccold: 6 (thorough 24) fresh processes whose FIRST checksum calls come from 8/16 threads released by a barrier (value must be the IEEE check value) + cold verifying readers on a file written by another process || " 
         "crc: all lengths 0..257 (thorough 0..1025) x alignment x fill kind; all splits of strings <= 24 bytes + "
         "random splits; crc_dmg: every single bit / every position of a solid and of a two-ends 32-bit burst in a "
         "19-byte message, random bursts (any length, start, width 1..32) in messages up to 64 (thorough 300) bytes, "
         "real checksum must change; pagecrc: 5 (thorough 20) carquet-written files over 5 codecs, every page body: single bits, byte changes, random bursts <= 32 bits and two-ends 32-bit windows (thorough: every bit of pages <= 96 bytes) x {fread, mmap, buffer}: verification on must report an error, the clean file must not, verification off must stay memory-safe (forked child); distinct = distinct (op, input bytes)",
    assumptions=["little-endian host (memcpy loads)", "ARM hardware CRC path not compiled on this host"],
    trusted_base=["zlib crc32() as C-side oracle"],
    text="CRC function part: proved for all inputs that the table/slicing-by-8 model of carquet_crc32 equals the bit-serial "
         "IEEE 802.3 CRC-32, that incremental updates compose for every split, and that every modification confined to a "
         "window of <= 32 message bits (single bit, single byte, any <= 4-byte change, any burst) changes the checksum "
         "(bound shown tight by a kernel-checked 33-bit counterexample); model tied to the C code and zlib on all lengths "
         "0..257 x alignments, all short splits and seeded bursts",
    level_note="Lean kernel; translator (CRC32_POLY); harness; zlib as second oracle; little-endian host",
    technique="Lean 4 proof (GF(2)-linearity of the LFSR) over bit-serial spec + table model; differential correspondence",
  ),
}
