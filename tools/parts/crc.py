PART = {
  "C14": dict(
    imports=["Carquet.Properties.C14.Crc"],
    obligations=["Carquet.Properties.C14." + t for t in (
        "C14_poly_is_ieee", "C14_table0_is_step8", "C14_impl_eq_spec", "C14_impl_update_eq_spec",
        "C14_update_composes", "C14_update_composes_impl", "C14_update_assoc", "C14_bit_serial",
        "C14_burst_detected", "C14_burst_detected_spec", "C14_burst_detected_xor",
        "C14_four_bytes_detected", "C14_single_byte_detected", "C14_single_bit_detected")],
    components=["crc"],
    fidelity={"Impl.Crc32": "exact"},
    rule="crc: all lengths 0..257 (thorough 0..1025) x alignment x fill kind; all splits of strings <= 24 bytes + "
         "random splits; crc_dmg: every single bit / every position of a solid and of a two-ends 32-bit burst in a "
         "19-byte message, random bursts (any length, start, width 1..32) in messages up to 64 (thorough 300) bytes, "
         "real checksum must change; distinct = distinct (op, input bytes)",
    assumptions=["little-endian host (memcpy loads)", "ARM hardware CRC path not compiled on this host"],
    trusted_base=["zlib crc32() as C-side oracle"],
  ),
}
