_LZ4_TRUST = [
    "liblz4 1.9.4 (dlopen'ed by the harness when present) as second, independent decoder/encoder oracle",
    "my reading of lz4_Block_format.md in Spec/Lz4.lean (cross-checked against liblz4 vectors and by liblz4 decoding "
    "carquet's output / carquet decoding liblz4's output in every run)",
]
_LZ4_ASSUME = [
    "little-endian host (lz4_read32 via memcpy)",
    "no pointer wrap-around: sizes are far below 2^64 (ip + lit_len, bound computation)",
    "fail-stop memory model: reads index the source / the bytes written so far, writes append under the capacity",
]
PART = {
  "C09": dict(
    text="LZ4 part and codec wrappers: for every byte string the model of carquet_lz4_compress succeeds in any "
         "capacity >= n + n/255 + 16 with an output within the bound, refuses smaller capacities before writing, "
         "never stores outside the destination, and its output is decompressed by the model of "
         "carquet_lz4_decompress into exactly |x| bytes equal to x (proved via a hash-table-independent copy-validity "
         "lemma); gzip/zstd wrappers proved to round-trip and honour bound/capacity under the stated library "
         "contract; models tied byte-for-byte to the C functions by differential execution",
    level_note="Lean kernel; translator; harness; liblz4 / zlib / libzstd called directly as oracles",
    technique="Lean 4 proof over executable models (ops + serialize factorisation), correspondence to C by differential execution under ASan/UBSan",
    imports=["Carquet.Properties.C09.Lz4"],
    obligations=["Carquet.Properties.C09.C09_lz4_constants",
                 "Carquet.Properties.C09.C09_lz4_copy_valid",
                 "Carquet.Properties.C09.C09_lz4_roundtrip",
                 "Carquet.Properties.C09.C09_lz4_fits_bound",
                 "Carquet.Properties.C09.C09_lz4_roundtrip_at_bound",
                 "Carquet.Properties.C09.C09_lz4_small_dst_refused_or_safe",
                 "Carquet.Properties.C09.C09_lz4_fuel_adequate",
                 "Carquet.Properties.C09.C09_gzip_wrapper",
                 "Carquet.Properties.C09.C09_zstd_wrapper",
                 "Carquet.Properties.C09.C09_wrapper_level_clamp",
                 "Carquet.Properties.C09.C09_regression_F41",
                 "Carquet.Properties.C09.C09_regression_F41_roundtrip"],
    components=["lz4c", "codecw"],
    fidelity={"Impl.Lz4": "exact", "Impl.CodecWrappers": "structural"},
    rule="lz4: compress on empty, every length 0..40 x 5 fill kinds, literal/match-length boundary grid "
         "(14/15/16/269/270/271.. x 18/19/20/273/274..), trailing margins 0..17, repeats at distance 65534..65537 and "
         "131072 (uint16 table aliasing), 64 KiB..300 KB zero/periodic/text/random inputs, period-65540 inputs, random "
         "structured inputs; capacities bound, bound-1, |x|, 0..5, bound+k; every OK output is decoded by carquet into "
         "exactly |x| bytes, by liblz4 and by the Spec decoder.  codecw: gzip levels -3..12 and zstd levels -3..25 through "
         "the wrappers on 5 sizes, capacities bound / bound-1 / |x| / tiny / |x|/4, random (level, size, capacity), "
         "decompression of valid / short-capacity / truncated / damaged / raw streams, NULL arguments, a 4 GiB + 5 byte "
         "source; every call compared with zlib / libzstd called directly with the same arguments.  "
         "distinct = distinct (op, inputs); empty input and NULL tests counted trivial",
    assumptions=_LZ4_ASSUME + [
        "gzip/zstd: the library contract Lib.Contract (decompress (compress x) = x, |compress x| <= bound |x|, results "
        "within the given capacity) is assumed of zlib and libzstd, not proved",
        "gzip wrapper after F41: feeding zlib in pieces of <= UINT_MAX bytes equals one call on the whole buffers "
        "(zlib streaming semantics; the pieces loop itself is not modelled)"],
    trusted_base=_LZ4_TRUST + ["zlib 1.3.1 and libzstd called directly as oracles for the wrapper model (harness records "
                               "their answers, the driver instantiates the abstract library with them)"],
  ),
  "C10": dict(
    text="LZ4 part: every output of the compressor model is a block of the independent LZ4 grammar for x and "
         "respects the end-of-block rules; the decompressor model equals the independent Spec decoder on all inputs "
         "(accepts every valid block, rejects everything else with INVALID_COMPRESSED_DATA); Spec decoder proved "
         "equivalent to the inductive grammar",
    level_note="Lean kernel; translator; harness; liblz4 as second reading of the format",
    technique="Lean 4 proof against an independent format Spec + differential correspondence to the C code",
    imports=["Carquet.Properties.C10.Lz4"],
    obligations=["Carquet.Properties.C10.C10_lz4_spec_decode_iff_block",
                 "Carquet.Properties.C10.C10_lz4_output_valid",
                 "Carquet.Properties.C10.C10_lz4_accepts_valid",
                 "Carquet.Properties.C10.C10_lz4_rejects_invalid",
                 "Carquet.Properties.C10.C10_lz4_rejects_nonblocks",
                 "Carquet.Properties.C10.C10_lz4_decompress_eq_spec",
                 "Carquet.Properties.C10.C10_regression_F40"],
    components=["lz4"],
    fidelity={"Impl.Lz4": "exact"},
    rule="lz4: decompress on exact-size buffers: blocks from an independent C encoder written from the format "
         "(random sequences: literal lengths 0,1,14..17,254..256,269..271,524..526, match lengths 4,5,18..21,272..275,"
         "528..530 and 3000..12000, offsets 1, 2..7, 8, 9..16, start of output, 65535, random; non-zero low nibble in the "
         "last token) at capacity = size, size-1, size+k; 3 mutations per block (bit flip, offset 0, 0xffff, random byte); "
         "every truncation of blocks <= 48 bytes; all 1-byte and a grid of 2-byte inputs; random bytes; blocks "
         "produced by liblz4 (fast and HC); blocks without final sequence; plus the Spec decoder on every output "
         "of carquet's compressor",
    assumptions=_LZ4_ASSUME,
    trusted_base=_LZ4_TRUST,
  ),
  "C08": dict(
    text="LZ4 part: for all inputs and capacities the fail-stop model of carquet_lz4_decompress makes no read outside "
         "the source, no read of unwritten destination bytes and no write beyond the capacity (8-byte copy loop "
         "included); heap behaviour of the real function observed under ASan on exact-size buffers",
    level_note="Lean kernel; harness under ASan/UBSan",
    technique="Lean 4 proof over fail-stop memory model + sanitizer-observed correspondence",
    imports=["Carquet.Properties.C08.Lz4"],
    obligations=["Carquet.Properties.C08.C08_lz4_decompress_in_bounds",
                 "Carquet.Properties.C08.C08_lz4_decompress_total",
                 "Carquet.Properties.C08.C08_lz4_decompress_fuel_adequate"],
    components=["lz4mem"],
    fidelity={"Impl.Lz4": "exact"},
    rule="lz4: the same decompress operations, source and destination in exact-size heap blocks under ASan/UBSan",
    assumptions=_LZ4_ASSUME,
    trusted_base=[],
  ),
}
