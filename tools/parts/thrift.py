PART = {
  "C13": dict(
    imports=["Carquet.Properties.C13.Thrift", "Carquet.Properties.C13.PageIndex"],
    obligations=[
      "Carquet.Properties.C13.C13_tables_match_spec",
      "Carquet.Properties.C13.C13_tables_wellformed",
      "Carquet.Properties.C13.C13_varint_zigzag_roundtrip",
      "Carquet.Properties.C13.C13_roundtrip_filemetadata",
      "Carquet.Properties.C13.C13_roundtrip_pageheader",
      "Carquet.Properties.C13.C13_impl_output_is_compact",
      "Carquet.Properties.C13.C13_spec_decode_encode",
      "Carquet.Properties.C13.C13_accepts_any_encoding",
      "Carquet.Properties.C13.C13_parses_acceptable_encodings",
      "Carquet.Properties.C13.C13_skip_consumes_value",
      "Carquet.Properties.C13.C13_regression_F9",
      "Carquet.Properties.C13.C13_regression_F8",
      "Carquet.Properties.C13.C13_regression_F24",
      "Carquet.Properties.C13.C13_pageindex_tables_match_spec",
      "Carquet.Properties.C13.C13_columnindex_is_compact",
      "Carquet.Properties.C13.C13_offsetindex_is_compact",
      "Carquet.Properties.C13.C13_regression_F70",
    ],
    components=["thrift"],
    fidelity={"Impl.Thrift": "exact", "Impl.ThriftParquet": "exact (C unions: see NOTES_thrift.md)",
              "Impl.ThriftPageIndex": "exact (bytes appended and status of the two page-index serialisers; builder state as left by add_page)",
              "Impl.ThriftCost": "structural (step counters following the tied control flow; not tied themselves)"},
    rule="thrift: generated FileMetaData / PageHeader values (all logical types, extreme integers, empty/long/non-ASCII "
         "names, lists of 0/14/15/16+ elements, optional members present or absent) through the real writers and parsers; "
         "encodings of the same structures by an independent C encoder (long-form field and list headers, unknown fields "
         "of every wire type incl. list<bool>/map<bool,..>, nested containers); mutations, every prefix, random bytes; "
         "one case at and one above each VALIDATE_COUNT limit; nesting 28..36, 100, 1000 and 200000 levels; every decoder "
         "primitive on varints of every length; encoder call programs incl. nesting 30..36; lists/sets/maps of BYTE/DOUBLE/UUID "
         "with 0..2*width+1 bytes left (ignored carquet_buffer_reader_skip results); page-index builders with 0/1/14/15/16/17/33/64 "
         "and random page counts, NULL / empty / short / long bounds, extreme integers, with and without uncompressed-size "
         "tracking, serialised and read by the Spec decoder; distinct = distinct (op, inputs)",
    assumptions=["little-endian host (doubles)", "arena allocation failures not modelled (C19)",
                 "page-index serialisers: builder state as left by add_page with allocations succeeding; carquet has no parser for "
                 "ColumnIndex / OffsetIndex, the round trip is through the Spec decoder",
                 "C struct domain: enum ids of carquet_logical_type_t in 0..14, time units in 0..2, strings NUL-terminated"],
    trusted_base=["translate/gen_thrift.py (regex extraction of field ids / wire types from parquet_types.c and, for the two "
                  "page-index serialisers, page_index.c incl. list element types)",
                  "Spec/ParquetThriftPageIndex.lean (ColumnIndex / OffsetIndex / PageLocation of parquet.thrift, from memory)",
                  "harness/thrift_foreign.h (independent Thrift compact encoder used as C-side oracle input)",
                  "Spec/ParquetThrift.lean field tables written from memory of parquet.thrift"],
  ),
  # safety of the metadata parser on arbitrary bytes (statements of C04 / C08 about the Thrift layer); the tie of the
  # models is the C13 component above — imports / obligations only here
  "C04": dict(
    imports=["Carquet.Properties.C04.Thrift"],
    obligations=[
      "Carquet.Properties.C04.C04_thrift_file_metadata_safe",
      "Carquet.Properties.C04.C04_thrift_page_header_safe",
      "Carquet.Properties.C04.C04_thrift_skip_safe",
      "Carquet.Properties.C04.C04_thrift_skip_in_buffer",
      "Carquet.Properties.C04.C04_thrift_skip_stack_bound",
      "Carquet.Properties.C04.C04_thrift_skip_linear",
      "Carquet.Properties.C04.C04_thrift_parsers_linear",
      "Carquet.Properties.C04.C04_thrift_counts_bounded",
      "Carquet.Properties.C04.C04_thrift_list_alloc_bounded",
    ],
  ),
}

# what the check delivers, in the component builder's words
PART['C13'].update(
    text="Impl models of the Thrift compact codec, of every parquet_types.c writer/parser and of the two page-index serialisers of metadata/page_index.c; proved: varint/zigzag round trip, parse(write v) = norm v with all bytes consumed for every well-formed FileMetaData / PageHeader, carquet's bytes are a compact-protocol encoding of the value parquet.thrift assigns (independent Spec decoder), thrift_skip consumes exactly any value of any wire type within the nesting limit, any admitted encoding with unknown fields at EVERY nesting level (syntactic ExtendsDeep over parquet.thrift's struct tree) parses to the same structure, ColumnIndex / OffsetIndex bytes are admitted / canonical compact protocol of the parquet.thrift value (Spec decoder reads it back); field tables re-extracted from the source and compared with parquet.thrift on every run; model tied to the C code by differential execution incl. an independent encoder with unknown fields",
    level_note='Lean kernel; translator gen_thrift.py; harness with independent C encoder; ASan/UBSan',
    technique='Lean 4 proof over Spec (generic compact protocol + parquet.thrift tables) and exact Impl models, translator for field tables, differential correspondence to the C code')

