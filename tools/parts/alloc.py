PART = {
  "C19": dict(
    imports=["Carquet.Properties.C19.Alloc", "Carquet.Properties.C19.AllocExt"],
    obligations=[
      "Carquet.Properties.C19.C19_buffer_inv",
      "Carquet.Properties.C19.C19_buffer_failed_append_unchanged",
      "Carquet.Properties.C19.C19_buffer_append_ok_content",
      "Carquet.Properties.C19.C19_arena_alloc_disjoint_in_block",
      "Carquet.Properties.C19.C19_arena_failed_alloc_unchanged",
      "Carquet.Properties.C19.C19_schema_growth_preserves",
      "Carquet.Properties.C19.C19_thrift_latch",
      "Carquet.Properties.C19.C19_page_builder_propagates",
      "Carquet.Properties.C19.C19_success_means_same_effect",
      "Carquet.Properties.C19.C19_success_means_same_effect_single_failure",
      "Carquet.Properties.C19.C19_write_path_propagates",
      "Carquet.Properties.C19.C19_regression_F20a",
      "Carquet.Properties.C19.C19_regression_F20a_strings",
      "Carquet.Properties.C19.C19_regression_F20b",
      "Carquet.Properties.C19.C19_regression_F20b_header",
      "Carquet.Properties.C19.C19_regression_F20c",
      "Carquet.Properties.C19.C19_regression_F20d",
      "Carquet.Properties.C19.C19_regression_F20e",
      "Carquet.Properties.C19.C19_regression_F20f",
      "Carquet.Properties.C19.C19_regression_F20g",
      # second wave (Properties/C19/AllocExt.lean)
      "Carquet.Properties.C19.C19_arena_alloc_sequence_disjoint",
      "Carquet.Properties.C19.C19_metadata_builders_propagate",
      "Carquet.Properties.C19.C19_statistics_build_ok_is_complete",
      "Carquet.Properties.C19.C19_index_serialize_ok_is_complete",
      "Carquet.Properties.C19.C19_column_index_builder_safe",
      "Carquet.Properties.C19.C19_offset_index_builder_safe",
      "Carquet.Properties.C19.C19_page_load_propagates",
      "Carquet.Properties.C19.C19_column_read_counts_are_true",
      "Carquet.Properties.C19.C19_column_read_full_unless_refused",
      "Carquet.Properties.C19.C19_regression_F20h",
      "Carquet.Properties.C19.C19_regression_F20i",
      "Carquet.Properties.C19.C19_regression_F20j",
    ],
    components=["alloc"],
    fidelity={"Impl.Buffer": "exact", "Impl.Arena": "exact (power-of-two alignments; memory contents not modelled)",
              "Impl.AllocFlow (schema builder, Thrift latch, page builder)": "structural, tied by component-level ops "
              "(statuses, sizes and number of allocation requests compared under the same oracle)",
              "Impl.AllocFlow (column/row-group/file writer, open, get_column)": "structural; tied by exact per-call request "
              "counts and call statuses under every single failure where the counts are predictable (malloc-level injection, "
              "short column names, pages below 4096 bytes, codec other than zstd), otherwise by site names and the scenario predicate",
              "Impl.AllocExt (page-by-page column reader: dictionary pages, several pages per chunk, partial progress, skip; "
              "batch reader over it)": "structural with exact request counts: tied call by call (status, requests made, rows "
              "returned) under every single failure in fread, mmap and buffer mode",
              "Impl.AllocExt (Bloom filter, statistics builder, column/offset index builders with heap bookkeeping, index "
              "serialisers)": "structural with exact request counts, tied call by call"},
    rule="alloc: (1) component level - random op sequences on carquet_buffer_* / carquet_arena_* / schema builder / "
         "thrift_write_* / page builder with 0-3 failing allocation requests (plus every single failing request of fixed "
         "sequences), boundary-directed sizes around 4096 / 64K / capacity doubling; the observable state (statuses, size, "
         "capacity, content hash, pointers as block+offset, request count) is diffed against the Impl model under the same "
         "oracle.  (2) scenario level - for each scenario (schema build; write of a 7-column multi-type nullable table "
         "per codec, also with a page > 4096 bytes and with long names / 4 row groups; open + column reads and batch "
         "reads in fread, mmap and buffer mode; footer parse with a nearly full arena) one fault-free run counts K "
         "requests, then the k-th request fails for every k in 1..K, at malloc/calloc/realloc/strdup level and at "
         "arena-request level; each case runs in a forked child (a crash ends one case only), LeakSanitizer is "
         "consulted per case, write results are re-read without faults and compared with the intended table (values, "
         "levels, names, path_in_schema, encodings), read results with the intended table; handles are then "
         "closed/freed/aborted (abort and close alternate).  (3) second wave of scenarios, same enumeration: a file assembled "
         "by the harness with the library's own serialisers (dictionary pages found through dictionary_page_offset and at "
         "data_page_offset, fixed width and BYTE_ARRAY, RLE_DICTIONARY / PLAIN_DICTIONARY, 2-3 data pages per chunk, a nested "
         "OPTIONAL group with max_def 2, page CRCs, snappy, and the footer fields carquet never writes: column key/value "
         "metadata, encoding_stats, file_path, chunk statistics) read by column (dict), with carquet_column_skip interleaved "
         "across pages (dskip), by the batch reader (dbatch) and through column_statistics / row_group_matches / "
         "filter_row_groups (dstats), in fread, mmap and buffer mode; Bloom filter create/insert/check/write/read/merge "
         "(bloom); statistics builder incl. build into a nearly full arena (statsb); column and offset index builders "
         "with > 32 pages and serialisation (pgidx); schema builder with groups (schemag); write of a table with a "
         "REPEATED column and a group in the schema, judged by byte equality with the fault-free file (wrep).  (4) request-"
         "count tie: every alloc_scn line carries per API call its status, the number of allocation requests it made and "
         "(reads / skips) the count it returned; for schema, schemag, bloom, statsb, pgidx, write/wrep (short names, small "
         "pages, no zstd), read, batch, dict, dskip, dbatch the driver runs the Impl model call by call under the same "
         "oracle and all three lists must be equal (lvl=0).  alloc_arena lines are additionally checked for n-ary "
         "pairwise disjointness of the pointers handed out.  Distinct = distinct (scenario, codec, mode, level, k).",
    assumptions=[
      "level claim: the *propagation algebra* of the modelled components is proved (a refused request surfaces as an "
      "error; success implies the fault-free result; no modelled NULL dereference).  Crash-, leak- and use-after-free "
      "freedom of the whole C API under every single allocation failure is NOT proved: it is explored by fault "
      "enumeration inside the correspondence tie (ASan + LeakSanitizer, every k of every scenario run on each check)",
      "single-failure enumeration only at scenario level (component level: up to 3 failures); OpenMP disabled in the "
      "batch-reader scenarios (num_threads = 1) so that the request order is deterministic",
      "allocations made inside libz (dynamic library) are not interposed; those inside the static libzstd are",
      "sizes below 2^63 (no size_t wrap-around in capacity / offset arithmetic); malloc returns 16-byte aligned blocks",
      "the scenario tables avoid the writer/reader defects unrelated to allocation (strictly alternating null pattern, "
      "one write_batch per column per row group, whole-chunk reads)",
      "the models mirror /repo with fixes/F20a..F20j applied; on a tree without them the F20 sites show up as violations "
      "(F20h, F20i, F20j: fixes/F20h-*.patch, F20i-*.patch, F20j-*.patch, found by the second wave of scenarios)",
      "request-count tie: page headers of the modelled files are shorter than the 256-byte header window; arena requests of "
      "open / close fit the first block unless the scenario is excluded from the tie (long column names)",
    ],
    trusted_base=["harness/alloc_wrap.c (link-time interposition of malloc/calloc/realloc/strdup and of the carquet_arena_* "
                  "entry points; frame-pointer stack capture of the failing request)",
                  "LeakSanitizer's recoverable leak check, fork() per batch of cases"],
    timeout=3000,
  ),
}

# what the check delivers, in the component builder's words
PART['C19'].update(
    text='partial: for the allocation-bearing components (growable buffer, arena incl. n-ary disjointness of whole allocation sequences, schema builder, Thrift encoder latch, page builder, column/row-group/file writer status flow, open/parse, page-by-page column reader with dictionary pages / partial progress / skip, batch reader, Bloom filter, statistics builder, page index builders with live/dangling pointer bookkeeping) Lean theorems over executable models with an explicit allocator oracle show that a refused request surfaces as an error status, that a call reporting success has the fault-free effect, that read/skip counts are true and short only under a refusal, and that the index builders never touch a freed block nor leak; the models are tied to the C code by differential execution under the same fail pattern, the upper write/read flows call by call by exact request counts.  That no single failed request makes the real API crash, leak, or silently change its result is explored on every run by enumerating every k of every scenario (write per codec, column and batch reads in each I/O mode, schema build, footer parse under arena pressure) under ASan/LeakSanitizer — observed, not proved',
    level_note='Lean kernel for the propagation algebra; the whole-API claim rests on fault enumeration (sampled scenarios, single failures) with sanitizers',
    technique='Lean 4 proof over oracle-threaded models + link-time allocation fault injection with per-case leak checks')
