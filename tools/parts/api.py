_P = "Carquet.Properties."
PART = {
  "C17": dict(
    imports=[_P + "C17.Api"],
    obligations=[_P + "C17." + t for t in ("C17_logical_type_accessor", "C17_logical_member_table",
                                           "C17_node_levels_sum_to_leaf_levels", "C17_builder_logical_types")],
    components=["apischema"],
    pregen={"apischema": "apischema"},
    fidelity={"Impl.SchemaApi": "exact (get_element, node accessors, builder calls with logical types, the schema part of "
                                "writer_create + build_file_metadata)",
              "Gen.Api logical tables": "translated from parse_logical_type / write_logical_type / types.h on every run"},
    rule="apischema: (a) reference files from `driver --gen apischema`: footers built as Thrift values from parquet.thrift's "
         "field numbers (no carquet code), random schema trees (depth <= 4, <= 15 elements) whose elements carry every "
         "LogicalType union member (1-8, 10-15, each forced once on a leaf and once on a group per round, all parameter "
         "values incl. extremes), unions without a member / with a member carquet does not know (9, 16, 17, 20), converted "
         "types 0..21 and out-of-enum values, scale/precision/field_id, unknown fields inside element / union / member "
         "structs, canonical and long-header encodings; read through every node accessor in fread, mmap and buffer mode; "
         "(b) builder sequences through carquet_schema_add_column WITH a logical type (every id alone and among others, "
         "NULL, {UNKNOWN}, parameter extremes, garbage in the unused union bytes) and add_group, lengths 0..9, 62..66, 130; "
         "accessors on the builder schema, then the file the real writer makes from it read back in the three modes. "
         "Expected values come from the Spec side (generic Thrift decode of the file's footer + parquet.thrift numbering), "
         "never from carquet's parser. distinct = distinct files / call sequences",
    assumptions=["names are NUL-free ASCII without '.' and ',' (line syntax)",
                 "a LogicalType union with two known members (not a valid union) is outside the generated set (the C "
                 "parser overlays the params union; the Thrift model flags it `overlay`)",
                 "the written file of a builder schema carries no rows (only the footer's schema is the subject)"],
    trusted_base=["Spec.Thrift generic decoder and Spec.SchemaAnnot (my reading of parquet.thrift's LogicalType union) as the "
                  "oracle of `what the file states`"],
    text="public schema accessors: for a footer that is ANY admissible compact-protocol encoding (unknown fields at every "
         "level) of ANY schema, opened in any I/O mode, carquet_schema_get_element + carquet_schema_node_logical_type return, "
         "for every element of the tree, exactly the logical type the element states (union member and parameters; NULL when "
         "absent), the converted type likewise, NULL outside [0, n) (C17_logical_type_accessor, composed from the C13 "
         "acceptance theorem and the open paths); the Thrift union numbering (1-8, 10-15) and the dense public enum (0-14) are "
         "kept apart as parquet.thrift and types.h define them, re-extracted arm by arm from parse_logical_type / "
         "write_logical_type on every run (C17_logical_member_table); the per-node max_def/max_rep accessors return the node's "
         "own contribution and the levels build_schema gives a column are the sums of those values along the column's path "
         "(C17_node_levels_sum_to_leaf_levels); columns added WITH a logical type report it back, and a file written from such "
         "a schema reads it back, {UNKNOWN} collapsing to NULL as build_file_metadata decides (C17_builder_logical_types).",
    level_note="Lean kernel; translator (logical-type arms, enums); harness with Spec-side oracle on reference-written footers",
    technique="Lean 4 proofs (structural induction over schema trees with a prefix/suffix generalisation; Thrift acceptance "
              "theorems of C13 reused) + translated switch tables proved equal to the Spec numbering + differential "
              "correspondence on generated footers",
  ),
  "C03": dict(
    imports=[_P + "C03.Api"],
    obligations=[_P + "C03." + t for t in ("C03_metadata_accessors_modes_agree", "C03_can_zero_copy_sound", "C03_regression_F90")],
    components=["apimeta"],
    pregen={"apimeta": "reffiles"},
    fidelity={"Impl.ReaderApi": "exact (is_mmap, num_rows/num_row_groups/num_columns, row_group_metadata, can_zero_copy "
                                "pinned and repaired)"},
    rule="apimeta: every reference file of `driver --gen reffiles` (see C06: all codecs, encoding mixes, nested schemas, "
         "REQUIRED fixed-width UNCOMPRESSED columns with PLAIN and dictionary pages in both orders, empty pages, unsupported "
         "and damaged classes) opened in fread, mmap and buffer mode: is_mmap, the counts, row_group_metadata for indices "
         "-1..nrg and INT_MIN/INT_MAX (output struct pre-filled: untouched on error), can_zero_copy for every (rg, col) in "
         "-1..nrg x -1..ncols and the extremes; observed zero-copy branches: the page loader's VIEW flag while each column is "
         "read value by value, and a batch reader (batch sizes 2^20 and 3) handing out column data inside the mapping / the "
         "caller's buffer; metadata compared across modes and with the footer decoded by the generic Spec decoder; distinct = files",
    assumptions=["mmap() of a non-empty regular file succeeds (observed: is_mmap is printed and compared)",
                 "GZIP/ZSTD pages are not decoded by the model (no library in the driver); such chunks never take a view"],
    trusted_base=[],
    text="(accessors) the metadata accessors (num_rows, num_row_groups, num_columns, row_group_metadata for every index, "
         "every schema element accessor) return the same in fread, mmap and buffer mode for every file all three accept "
         "(C03_metadata_accessors_modes_agree); carquet_reader_can_zero_copy over-approximates the zero-copy branches: true "
         "whenever the page loader takes a view or the batch reader hands out a view for that column, false in fread mode "
         "and for every out-of-range index (C03_can_zero_copy_sound, incl. the invariant that a column reader only carries "
         "the VIEW flag when its chunk takes views). F90: the pinned predicate tested mmap_info and so answered false for "
         "every reader opened from a buffer although those take the zero-copy branches (kernel-checked, replayed, patch).",
    level_note="Lean kernel; harness on reference-written files in three modes; footer decoded by the Spec decoder",
    technique="Lean 4 proof (case analysis of get_column / the view decision; invariant over the column-reader model) + "
              "differential correspondence incl. direct observation of the branches taken",
  ),
  "C04": dict(
    imports=[_P + "C04.Error"],
    obligations=[_P + "C04." + t for t in ("C04_error_message_terminated", "C04_error_format_in_bounds",
                                           "C04_error_format_length_rule", "C04_status_string_total", "C04_names_total")],
    components=["apierr"],
    fidelity={"Impl.ErrorApi": "exact (vsnprintf as a parameter with the ISO C contract; Engine.std = the standard's rule)",
              "Gen.Api switch tables": "translated from src/core/error.c on every run"},
    rule="apierr: direct calls: carquet_status_string / recovery_hint / is_recoverable for every int -50..200 and extremes "
         "(INT_MIN, INT_MAX, 2^16+k, 2^32+k); the three *_name functions for -20..60 and extremes; carquet_error_set with texts of "
         "length 0,1,2,...,253..258,300,511,512,1000,5000,70000 and ~200 random ones (any byte but NUL, '%' included) passed as "
         "\"%s\", as the format itself, as \"%.*s%s\" and with a NULL format, into a struct pre-filled with a random byte "
         "(members behind the message checked intact); init/clear/copy/set_context (9x9 context pairs incl. INT64/INT32 "
         "extremes); carquet_error_format for every status -50..200 with rotating buffer sizes/messages/contexts and EVERY buffer "
         "size 0..300 for eight representative errors (messages of length 0..255, with and without hint/context), NULL error / "
         "NULL buffer; thorough: the full cross product status x size; every struct and buffer an exact-size heap block under "
         "ASan; carquet_init twice, version string against its components. distinct = distinct calls",
    assumptions=["the C library's vsnprintf keeps the ISO C contract (Engine.Contract); exact outputs assume the standard's "
                 "truncation rule (Engine.std) and the C locale",
                 "int arithmetic on lengths unbounded (every reachable text is shorter than 512 bytes)",
                 "carquet_error_format is given an error whose message holds a NUL (what every init/set establishes)"],
    trusted_base=["glibc vsnprintf"],
    text="(error reporting) every error path ends in carquet_error_set: whatever the format produces (longer than the 256-byte "
         "array, empty, NULL format) and whatever the struct held before, the message array keeps its size and holds a NUL, the "
         "members behind it are untouched, and with the standard's vsnprintf the string is the text cut to 255 bytes "
         "(C04_error_message_terminated, over all reachable structs incl. init/copy/set_context); carquet_error_format writes "
         "only inside [0, buffer_size) for every size incl. 0 and 1, leaves a NUL when size > 0, returns -1 or a value below "
         "the size (C04_error_format_in_bounds), returns the full length and the exact text when it fits and size-1 with the "
         "cut head otherwise (C04_error_format_length_rule); carquet_status_string, the *_name functions, the recovery hint and "
         "is_recoverable are total on every int: proper C strings, the default outside the case labels, every enum constant "
         "with its own case, the tables re-extracted from error.c on every run (C04_status_string_total, C04_names_total).",
    level_note="Lean kernel; translator (switch tables of error.c, format strings); harness with exact-size heap blocks under ASan",
    technique="Lean 4 proofs over a store/overlay model of the char arrays with the formatting engine as a contract-bound "
              "parameter + translated tables + differential correspondence of every call",
  ),
}
