_P = "Carquet.Properties.C01."
PART = {
  "C01": dict(
    imports=["Carquet.Properties.C01.Roundtrip"],
    obligations=[_P + t for t in ("C01_roundtrip", "C01_roundtrip_sizes", "C01_roundtrip_modes_agree",
                                  "C01_open_written", "C01_get_column_written", "C01_chunk_at_offset",
                                  "C01_chunk_read_written", "C01_row_group_read_written",
                                  "C01_roundtrip_any_consumption", "C01_schema_read_back", "C01_read_chunk_api",
                                  "C01_null_def_levels_all_present",
                                  "C01_roundtrip_lib", "C01_page_load_roundtrip_lib", "C01_chunk_pages_roundtrip_lib",
                                  "C01_storedOk_exact", "C01_storedOk_gzip", "C01_storedOk_zstd")],
    components=[],
    fidelity={"Impl.Reader.readAll o Impl.Writer.fileOf": "both exact models (writer: whole files byte for byte; reader: every "
              "field the real reader returns, three I/O modes); the composition is a theorem, and the run-time tie of op `wr` "
              "compares the REAL reader's output with the theorem's right-hand side `readerTableOf` and the model's "
              "`readAll` on the real bytes with the real reader's table"},
    rule="",
    assumptions=["C01_roundtrip is about the two models (Impl.Writer.fileOf over Impl.FileReal.deps [], Impl.Reader.readAll with "
                 "Fixes.all = the repaired reader); it reaches the C code through the byte-equality tie of the writer and the "
                 "field-equality tie of the reader (op `wr`, component `file`)",
                 "hypotheses of C01_roundtrip = those of C05_spec_reader_accepts_writer: codec UNCOMPRESSED / SNAPPY / LZ4 / LZ4_RAW "
                 "(GZIP / ZSTD go through zlib / libzstd); at least one column, flat REQUIRED / OPTIONAL / REPEATED columns, FLBA with positive "
                 "length, C-string names (SchemaOk); arrays as long as the counts say, values of the column's type, aligned columns "
                 "(HistOk; alignment is not used by this proof, see C01_roundtrip_sizes); file below 2 GiB, at most 32768 row "
                 "groups, chunk num_values and total_uncompressed_size below 2^31 (FileSizesOk); every call and the close returned OK",
                 "REPEATED columns are covered since component rep2 (PageShape / readDataPageV1_pageBody for max_rep_level 1); "
                 "Impl.Reader.Table holds definition levels and dense values per entry, the repetition levels the reader returns "
                 "are covered by the page-load theorems (decodedOf) and by C01_roundtrip_any_consumption (tableRows carries them)"],
    trusted_base=[],
    text="FILE-LEVEL ROUND TRIP, proved (C01_roundtrip): for every schema of flat REQUIRED / OPTIONAL / REPEATED columns, codec UNCOMPRESSED / "
         "SNAPPY / LZ4 / LZ4_RAW, page size and write history respecting the documented preconditions of write_batch and whose file "
         "fits the C integer types: if every call and the close returned OK, carquet's reader model - opened through "
         "carquet_reader_open without or with mmap or through carquet_reader_open_buffer, with or without checksum verification, "
         "whatever the codec libraries do - returns EXACTLY the table the history denotes: Impl.Reader.readAll Fixes.all L verify "
         "mode (fileOf ...).1 = ok (readerTableOf cols ops), i.e. row groups, rows, definition level of every row (null positions) "
         "and bit-identical dense values, num_rows = rows written. No stage is left as a hypothesis. Stages, each a theorem of its "
         "own: (open) all three open paths accept the writer's envelope and footer (C05_envelope, C13 footer round trip, "
         "build_schema = C17 traversal on root + typed leaves) and hold the writer's metadata and one leaf per column; (get_column) "
         "every test passes on the writer's chunk metadata; (chunk offsets) the file is pre ++ pages ++ post at data_page_offset "
         "for every (row group, column), derived from the tiling facts GroupsAt / ChunksAt; (page invariants) PageShape, HdrFits "
         "and 'header within the first 256-byte window' are invariants of the writer's page builder - statistics exist for "
         "INT32/INT64/FLOAT/DOUBLE only, so a header is at most 142 bytes and the F53 window-doubling loop is never entered on "
         "written files; (one chunk) one read_batch of num_values rows returns the column's entry; (loops) readRowGroup / "
         "readRowGroups over the writer's counts. Corollaries: the result is the same in all three modes and for both checksum "
         "settings (C01_roundtrip_modes_agree); for every (row group, column) and EVERY history of read/skip/has_next/remaining/"
         "re-create calls the column reader returns what the index cursor returns over the rows of that column of the table "
         "(C01_roundtrip_any_consumption, through C02). Kernel-checked non-vacuity on a two-column, two-row-group Snappy history "
         "with a null and page statistics. The driver's read-back predicate of op `wr` now compares the real reader's output with "
         "the same function readerTableOf (and still with the independently written rule of harness/ops_file.c), and ties "
         "Impl.Reader.readAll on the real bytes to the real reader's table in three modes.",
    level_note="Lean kernel: whole-file theorem reader(writer(history)) = table over the two exact models; harness tie of both models and the theorem's table on the real code",
    technique="Lean 4 proof composing the writer invariants (C05: envelope, tiling, page chain, written table, page-builder invariants) with the reader half (page/chunk theorems), C13 (footer, page header), C17 (schema traversal), C09/C11 (codecs, levels, PLAIN), C02 (column reader refinement)",
  ),
}
