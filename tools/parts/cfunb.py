"""Component cfun, batch `cfunb`: more carquet functions regenerated from the C source on every check run by the stage-2
translator (translate/gen_cfun.py: arrays as lists, pointers as offsets, out-parameters, caller buffers, constant tables,
loop nests) and linked by theorems (Properties/Cnn/CFunB.lean) to the hand-written Impl / Spec models the property theorems
are about.  First of all the SCALAR REFERENCE KERNELS of src/simd/dispatch.c - the definitions the C15 theorems take as what
every SIMD kernel must equal -, which were tied to the source by correspondence runs only; then array loops of the encodings
(byte_stream_split.c, plain.c, delta.c, delta_strings.c, dictionary.c) and the small helpers of the codecs (snappy.c, lz4.c).
The translator is the one of stage 2 with five delimited extensions (notes/NOTES_cfunb.md): `float`/`double` elements as
opaque words that can only be moved, a value array declared to be accessed as bytes (`bytes=`), an `ends=` base that is a
LATER parameter (`scalar_match_length(p, match, limit)`), `memcpy` between byte arrays (`CSem.blit`, with the no-overlap
obligation), NULL tests of array parameters (constant: arrays are objects), a pointer result (an offset into a parameter's
array).  Same self-check component as stages 1-2 (`cfun`, op cfun2)."""

_TECH = ("Lean 4 proof over definitions regenerated from the C source by a clang-AST translator (arrays, pointers, "
         "out-parameters, tables, loop nests) + differential self-check of the translator under ASan/UBSan")
_TRUST = ["clang-14's typed JSON AST of the current source (incl. the initialisers of constant tables)",
          "translate/gen_cfun.py stage 2 with the cfunb extensions (float/double as opaque words, byte view of a value array, "
          "forward `ends=`, memcpy between byte arrays, NULL tests of array parameters, pointer results) and the memory part of "
          "lean/Carquet/Impl/CSem.lean (rd8/rd/wr/wr8/inb/ld*le/blit/disjoint); validated on every run against the compiled "
          "functions on exact-size heap buffers (component cfun, op cfun2)"]
_ASSUME = ["little-endian LP64 host (the translator asks clang)",
           "distinct array parameters of a translated function do not overlap unless an `ends=` entry says that one points "
           "into the other (scalar_match_copy: src = dst - offset, scalar_match_length / lz4_count: p, match, limit in one buffer); "
           "array parameters are non-NULL (a NULL test of one is constant false)",
           "a float / double load followed by a store moves the bits unchanged (x86-64 SSE; the self-check feeds NaN patterns)",
           "forming a pointer beyond the end of its array without dereferencing it is not counted as undefined behaviour"]
_RULE = ("cfun (op cfun2), second batch: three quarters of the tuples of each new function come from a directed generator "
         "(Driver/Gen/CFun.lean, block cfunb): every array exactly as long as the contract says for a count drawn around every "
         "block / word / vector boundary (0..13, 15..17, 31..34, 63..65, ..., 257, up to 320 / 1500), contents random / zero / "
         "all-ones (NaN patterns for the float words) / small, and with small probability one hostile deviation each (count one "
         "more / one less / -1 / INT64_MIN, an output one element short, an index equal to or beyond the dictionary size or "
         ">= 2^31, a `limit` beyond the buffer, an `offset` >= 8 with overlapping 8-byte copies, a length class boundary of the "
         "Snappy tags); the rest from the generic stage-2 generator.  The generated `_defined` verdict decides whether the REAL "
         "function is executed (exact-size heap buffers under ASan); the driver compares every result component and evaluates "
         "the value side (`modelLinkB`) and the definedness side (`definedClaimB`) of the link theorems on the C results; "
         "distinct = distinct (function, arguments)")
_FID = {"Gen.CFun stage 2, batch cfunb (scalar reference kernels of dispatch.c, array loops of the encodings, codec helpers; "
        "translated from C on every run)": "generated"}


def _p(pid, names, text):
    return dict(
        imports=[f"Carquet.Properties.{pid}.CFunB"],
        obligations=[f"Carquet.Properties.{pid}.{pid}_cfun_{n}" for n in names],
        components=["cfun"],
        pregen={"cfun": "cfun"},
        fidelity=_FID,
        rule=_RULE,
        assumptions=_ASSUME,
        trusted_base=_TRUST,
        text=text,
        technique=_TECH,
        level_note="Lean kernel; clang-14 AST; gen_cfun.py stage 2 + cfunb extensions + CSem.lean (self-checked against the "
                   "compiled functions on exact-size buffers every run)",
    )


def _wd(names):
    out = []
    for n in names:
        out += [n, n + "_defined"]
    return out


PART = {
  "C15": _p("C15", _wd(["scalar_prefix_sum_i32", "scalar_prefix_sum_i64", "scalar_gather_i32", "scalar_gather_i64",
                        "scalar_gather_float", "scalar_gather_double", "scalar_byte_split_encode_float",
                        "scalar_byte_split_encode_double", "scalar_byte_split_decode_float",
                        "scalar_byte_split_decode_double", "scalar_unpack_bools", "scalar_pack_bools",
                        "scalar_find_run_length_i32", "scalar_crc32c", "scalar_match_copy", "scalar_match_length",
                        "scalar_count_non_nulls", "scalar_build_null_bitmap", "scalar_fill_def_levels"]) + ["crc32c_table"],
            "translated-kernel tie (component cfun, batch cfunb): all 19 scalar reference kernels of src/simd/dispatch.c "
            "(prefix sums, the four gathers, the four byte-stream-split loops, bool pack / unpack, run length, CRC-32C with its "
            "table read from the initialiser, match copy / length, count_non_nulls, build_null_bitmap, fill_def_levels) as "
            "translated from the current C source are proved equal to the scalar definitions Impl.Simd.scalar* that every "
            "C15_*_eq_scalar theorem and the dispatcher registry refer to, for every input under the kernel's contract (arrays "
            "of exactly `count` elements, counts below 2^63; unpack_bools below 2^34 flags), with no access outside the arrays, "
            "no signed overflow, non-overlapping 8-byte copies and enough loop fuel; for the gathers and unpack_bools `_defined` "
            "is proved EQUAL to the model accepting (an index outside the dictionary / a short input is a read outside the "
            "array).  The C15 reference side thereby rests on regenerated code"),
  "C09": _p("C09", _wd(["snappy_write_varint", "snappy_emit_literal", "snappy_emit_copy", "snappy_read32", "lz4_read32",
                        "lz4_count"]),
            "translated-kernel tie (component cfun, batch cfunb): the encoder helpers of src/compression/snappy.c - "
            "snappy_write_varint (stream header), snappy_emit_literal (tag byte with the five length classes 60 / 256 / 65536 / "
            "2^24, `memcpy` of the literal, pointer result), snappy_emit_copy (64-byte copies while len >= 68, one 60-byte copy, "
            "COPY_1 for len < 12 and offset < 2048 else COPY_2, pointer result) -, snappy_read32 / lz4_read32 and lz4_count (8-byte "
            "word compare, first differing byte, byte tail; p, match, limit in one buffer) as translated "
            "from the current C source are proved equal to Impl.Snappy.writeVarint / literalHeader ++ literal / copyBytes / "
            "read32 (the pieces Impl.Snappy.compressBytes is made of) and Impl.Lz4.read32 / count for every length and offset, with every store inside the "
            "output buffer"),
  "C11": _p("C11", _wd(["byte_stream_split_encode", "byte_stream_split_decode", "decode_plain_fixed_byte_array",
                        "decode_plain_boolean", "dict_hash",
                        "write_uleb128", "common_prefix_length"]) +
            ["byte_stream_split_encode_invalid", "byte_stream_split_encode_small"],
            "translated-kernel tie (component cfun, batch cfunb): carquet_byte_stream_split_encode / _decode (the generic "
            "FIXED_LEN_BYTE_ARRAY loop nests with their argument checks: status, output bytes and *bytes_written), "
            "carquet_decode_plain_fixed_byte_array (checks + run-time memcpy), carquet_decode_plain_boolean (checks, eight "
            "unrolled stores per whole byte, remaining bits), dict_hash (FNV-1a), write_uleb128 and "
            "common_prefix_length as translated from the current C source are proved equal to Impl.Bss.encode / decode, "
            "Impl.Plain.decodeFlba / decodeBoolean, Impl.Dictionary.dictHash, Impl.Delta.writeUleb128, Impl.DeltaStrings.commonPrefixLength"),
  "C08": _p("C08", ["byte_stream_split_decode_defined", "byte_stream_split_decode", "decode_plain_fixed_byte_array_defined",
                    "decode_plain_boolean_defined"],
            "translated-kernel tie (component cfun, batch cfunb): for carquet_byte_stream_split_decode, "
            "carquet_decode_plain_fixed_byte_array and carquet_decode_plain_boolean as translated from the current C source the generated `_defined` predicate "
            "(one conjunct `offset + n <= length` per access) is proved true for EVERY input whose true size is the size "
            "argument: under the function's own length check no byte outside the input is read and nothing outside the output is "
            "written; the status is DECODE exactly when the input is too short"),
}
