_P = "Carquet.Properties.C06."
PART = {
  "C06": dict(
    imports=["Carquet.Properties.C06.ImplReads"],
    obligations=[_P + t for t in ("C06_impl_reads_reference", "C06_impl_reads_reference_checked",
                                  "C06_impl_reads_reference_levels", "C06_impl_reads_modes_agree",
                                  "C06_impl_reads_plain_class", "C06_impl_reads_dictionary_class",
                                  "C06_impl_reads_codec_class", "C06_impl_reads_lib_codec_class",
                                  "C06_impl_reads_unknown_fields_class",
                                  "C06_unsupported_rejected", "C06_v2_page_rejected", "C06_v2_layout_rejected",
                                  "C06_regression_F62")],
    components=[],
    fidelity={"Impl.Reader.readAll o Spec.File.write": "the reference writer of the Spec composed with the exact model of "
              "carquet's reader (open paths, get_column, page loaders incl. the fread header window, CRC, decompression "
              "dispatch, level / PLAIN / dictionary decoding, dictionary pages, column reader); the composition is a theorem, "
              "and the run-time tie of op `refread` compares (a) the REAL reader's output with the theorem's right-hand side "
              "`readerTableOfSpec` (same function in theorem and driver) and (b) the model's `readAll` on the file bytes with "
              "the real reader's row groups in all three modes (codecs without library), incl. error-iff-error on the "
              "unsupported and damaged files; the two decidable hypotheses of the theorem (selfConsistencyHyp, fileClaimed) "
              "are evaluated per generated file and must hold exactly of the supported ones"},
    rule="",
    assumptions=["C06_impl_reads_reference is about the models (Spec.File.writeFull; Impl.Reader.readAll with Fixes.all = the "
                 "repaired reader incl. fix F62); it reaches the C code through the refread ties",
                 "hypotheses: those of C06_reference_selfconsistent (layoutAdm, footer value well-formed, sizes below 2^31) plus "
                 "Impl.Reader.Claim.fileClaimed - carquet's own limits: unknown fields nest at most 31 (footer) .. 27 (statistics, "
                 "dictionary page header) deep (THRIFT_MAX_NESTING 32), at most 10000 schema elements / columns, 100000 row groups, "
                 "100 encodings and path elements per chunk, no BOOLEAN dictionary, levels below 2^15 (data pages WITHOUT values are "
                 "inside the claim since repair F63, see part f63), and for the fread path: every page header at most 2^24 bytes (CARQUET_PAGE_HEADER_WINDOW_MAX); that "
                 "the growing window never accepts a header cut short is proved (parsePageHeaderC_mono, after fix F62)",
                 "GZIP / ZSTD page bodies: zlib / libzstd inflate the stored-block members / raw-RLE-block frames of the file "
                 "(LibsDecode; library contract, trusted base); every other class holds for ANY library behaviour"],
    trusted_base=["zlib and libzstd behind carquet_gzip_decompress / carquet_zstd_decompress (parameters of the reader model)"],
    text="IMPLEMENTATION HALF, proved (C06_impl_reads_reference): for every table (any schema tree - flat or nested, optional and "
         "repeated ancestors -, all eight physical types, any row groups) and every admissible layout of the reference writer "
         "inside carquet's stated limits, carquet's reader MODEL - opened by fread, mmap or from a buffer, with or without "
         "checksum verification - returns exactly the stored table as carquet hands it out: Impl.Reader.readAll Fixes.all L "
         "verify mode (Spec.File.write t l) = ok (readerTableOfSpec t) (num_rows, per row group and leaf column the definition "
         "level of every entry and the dense values); C06_impl_reads_reference_levels adds the repetition levels and the "
         "slot-exact contents of all three caller arrays of one read_batch per chunk. Free in the theorem: page split, run plans "
         "of level and index streams (RLE / bit-packed mixes, zero-length runs, over-long headers, padded groups), dictionary "
         "pages with duplicate / unused entries, PLAIN_DICTIONARY and RLE_DICTIONARY data pages up to width 32, dictionary "
         "offset present or absent (F52s), PLAIN pages before / after dictionary pages, SNAPPY op lists and LZ4 / LZ4_RAW "
         "sequence lists (through C10), GZIP stored blocks and ZSTD raw / RLE blocks (library contract), CRCs, page and chunk "
         "statistics, every Thrift header form, unknown fields of every wire type at all ten places (through C13), gaps, "
         "version, created_by. Delivered in classes, each a theorem with the class as a decidable hypothesis: PLAIN, "
         "dictionary, SNAPPY/LZ4 (these three for ANY library behaviour), GZIP/ZSTD, unknown fields = the union; corollary: all "
         "modes and settings read the same. Stages (Proofs/ImplReads*.lean): envelope; footer through C13 "
         "(parseFileMetaData_reads) with unknown fields at five levels; build_schema on the depth-first list of any tree "
         "(C17 build_flatten); get_column; page headers through C13 in the loaders' union view, any bytes behind; the fread "
         "header window (F53) doubled until it holds the header - sound because the parser is prefix-monotone after F62 "
         "(parsePageHeaderC_mono: a lock-step simulation of the decoder on a byte string and on any extension of it); CRC; stored bodies (C10, library contract); level blocks "
         "(C12 decodeLevels_of_runs on any run plan); PLAIN for all eight types; dictionary page scan / copy and index gather; "
         "dictionary step through the offset or inline; page iteration; column reader (C02 readBatch_ok); loops. NEGATIVE HALF "
         "(C06_unsupported_rejected, C06_v2_page_rejected): DATA_PAGE_V2 -> NOT_IMPLEMENTED from load_next_page; a value "
         "encoding outside {0, 2, 8}, a codec tag outside {0, 1, 2, 5, 6, 7}, a dictionary page of a BOOLEAN column -> "
         "load_next_page / load_dictionary_page returns an error whatever else the page holds, the page iteration ends in "
         "`none` there, nothing of the offending page is delivered - or (encoding and codec clause, since repair F63) the page "
         "announces no values and is stepped over undecoded (BIT_PACKED levels are not decided by a header field: "
         "observed only). DEFECT FOUND AND REPAIRED: F62 - thrift_skip ignored a BYTE / DOUBLE / UUID value that the buffer "
         "ends inside; a page header longer than the 256-byte fread window whose cut falls inside an unknown DOUBLE 0.0 was "
         "accepted truncated and the page decoded 8 bytes early: wrong values, status OK, fread mode only (witness "
         "corpus/C06/fixed-F62.ops, fix fixes/F62-..., C06_regression_F62). SECOND DEFECT FOUND (F63, empty data pages): repaired and lifted from the "
         "hypotheses by part f63. Kernel-checked non-vacuity on the nested two-row-group instance with four codecs, dictionaries, "
         "statistics and unknown fields at all places (fread, mmap, buffer), and one instance per class.",
    level_note="Lean kernel: whole-file theorem reader(reference writer(table, layout)) = table over the exact reader model; "
               "refread ties the model's readAll and the theorem's rendering to the real reader on every generated file",
    technique="Lean 4 proof composing the reference writer's structure (C06 Spec side) with the reader model stage by stage via "
              "C13 (any Thrift encoding, unknown fields), C12 (RLE grammar, PLAIN decoders), C10 (Snappy / LZ4 grammars), C14 "
              "(CRC), C17 (schema traversal), C02 (column reader)",
  ),
}
