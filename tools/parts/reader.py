_P = "Carquet.Properties."
_RULE_FILE = ("file (reader side): every `wr` line of the file component (random flat schemas over the 7 writable types, "
              "REQUIRED/OPTIONAL, extreme values, null patterns, 6 codec tags, page_size 1 B..1 MiB, 0..3 row groups, "
              "1..4 batches per column): the real file is read by the MODEL reader (open, get_column, page loads, "
              "Impl.ColumnReader) in fread, mmap and buffer mode and must give what the real reader returned, field by "
              "field (row groups, rows, columns, per chunk: count, definition levels, dense values) for codecs "
              "UNCOMPRESSED/SNAPPY/LZ4/LZ4_RAW; GZIP/ZSTD files: footer-level numbers only")
PART = {
  "C01": dict(
    imports=[_P + "C01.Reader"],
    obligations=[_P + "C01." + t for t in ("C01_page_body_roundtrip", "C01_stored_body_roundtrip",
                                           "C01_stored_body_roundtrip_lib", "C01_page_load_roundtrip",
                                           "C01_chunk_pages_roundtrip", "C01_chunk_roundtrip", "C01_recOk_of_writer")],
    components=["file"],
    fidelity={"Impl.Reader": "exact (open paths, get_column, page loaders incl. bounds checks, CRC, decompression "
                             "dispatch, v1 page decoding, dictionary pages; GZIP/ZSTD by library contract)",
              "Impl.Reader + Impl.ColumnReader": "tied on every generated file to the real reader's output"},
    rule=_RULE_FILE + "; C01's own predicate is evaluated three times: C side (p_roundtrip), in the driver against "
         "Impl.Writer.readerTableOf = the right-hand side of the theorem C01_roundtrip (readback_is_readerTableOf: row groups, "
         "num_rows, definition levels, dense values) and against the independently written rule of harness/ops_file.c "
         "(readback_is_intended_table); tie of the theorem's left-hand side: Impl.Reader.readAll on the real bytes = the real "
         "reader's table, three modes (reader_model_readAll_<mode>)",
    assumptions=["fwrite/fread are identity on bytes", "GZIP/ZSTD pages by library contract (not read by the model)",
                 "reader half proved up to chunk level (a chunk as the writer lays it out -> page iteration -> column "
                 "reader, any mode, any consumption history) under RecOk: the page records are what C05_pages_chain / "
                 "C05_written_table say they are, their content has the page builder's shape for a flat column (PageShape) "
                 "and fits the C size limits (HdrFits, page header <= 256 bytes); codecs UNCOMPRESSED/SNAPPY/LZ4/LZ4_RAW",
                 "composed to file level by the `compose` part (Properties/C01/Roundtrip.lean: C01_roundtrip); RecOk is "
                 "derived there from the writer's invariants, and generalised to any codec tag (RecOkL: the stored body "
                 "decompresses, by theorem or by library contract)"],
    trusted_base=[],
    text="reader part: carquet's reader from bytes to decoded pages (three open paths, get_column with its validation, "
         "page loaders with every bounds check, CRC, decompression, level/PLAIN/dictionary decoding) is modelled "
         "function by function and, composed with the column reader model, reproduces the real reader's output on "
         "every generated file in all three I/O modes; the written table is read back exactly (checked on the real "
         "code and by the driver against the intended table) for every generated history. Proved for all pages: the "
         "body the page builder emits for a flat REQUIRED/OPTIONAL column of any physical type decodes to exactly the "
         "levels and dense values that went in, and the stored (compressed) body decompresses back to it for "
         "UNCOMPRESSED/SNAPPY/LZ4 (GZIP by library contract); a page as the writer lays it out (hand-written header + "
         "stored body) is loaded by load_next_page in every I/O mode as exactly that content with its true sizes; the "
         "page iteration over a written chunk delivers the writer's pages in order, none lost or repeated; and any "
         "history of read/skip/has_next/remaining/re-create calls on the column reader of that chunk returns what the "
         "index cursor returns over the written rows, whose levels and dense values are the page builders' content "
         "(pagesData of C05_written_table). The file-level round-trip theorem built on these is C01_roundtrip (compose part).",
    level_note="Lean kernel (page and chunk level, reader half); harness tie of writer model (bytes) and reader model (values) + property predicate on the real code",
    technique="Lean 4 proof: page body (RLE levels, PLAIN via C11), codecs (C09), page header via the Thrift table framework of C13 (writer's hand-written bytes = what the C parser reads, for any bytes behind), induction over the pages of a chunk, C02 refinement for the consumption pattern; + exact executable models of writer and reader tied to the C code by differential execution of whole files",
  ),
  "C03": dict(
    imports=[_P + "C03.Reader"],
    obligations=[_P + "C03." + t for t in ("C03_footer_modes_agree", "C03_page_modes_agree", "C03_loadWithin_mapped",
                                           "C03_view_eq_copy", "C03_getColumn_valid", "C03_modes_differ_without_magic")],
    components=["file"],
    fidelity={"Impl.Reader": "exact; the mode is a parameter of the same definitions (header window and body access are "
                             "the only mode-dependent steps, plus the zero-copy branch)"},
    rule=_RULE_FILE + "; p_modes (C side): mmap and buffer mode return exactly what fread mode returns for every chunk",
    assumptions=["page loads within the file (LoadWithin): where a page header parses, header and stored body end "
                 "inside the file - outside that the modes differ only in the error class (FILE_READ/FILE_SEEK vs "
                 "INVALID_PAGE)", "file smaller than 2^64 bytes", "repaired code (F51: view bounded by the page body)",
                 "that the kernel's mapping shows the file's bytes, and pointer lifetime after munmap, are runtime"],
    trusted_base=[],
    text="(reader part) proved: on files that start with the magic the three open paths return the same metadata or "
         "the same error (and differ without it: the fread path never checks the leading magic); for every column, "
         "reader state, codec library and verification setting, a page load through the mapped path and through the "
         "fread path delivers the same levels, dense values and sizes or both fail, whenever the pages lie within the "
         "file - including the zero-copy branch, whose view is exactly what the PLAIN decoder copies (all six "
         "fixed-width types). Tied by reading every generated file in all three modes with the model and the real code.",
    level_note="Lean kernel; harness on files written by the real writer, three I/O modes",
    technique="Lean 4 proof via a mode-free reference loader that each mode's loader refines; PLAIN fixed-width decoding = chunking",
  ),
  "C04": dict(
    imports=[_P + "C04.Reader"],
    obligations=[_P + "C04." + t for t in ("C04_accesses_in_bounds", "C04_load_in_bounds", "C04_bad_indices_rejected",
                                           "C04_steps_linear", "C04_header_size_positive",
                                           "C04_regression_F51", "C04_regression_F12")],
    components=["c04"],
    fidelity={"Impl.Reader": "exact for open / get_column / page loaders with accesses reported as data; the decoders' "
                             "accesses inside a page buffer are C08's models; heap discipline not modelled"},
    rule="c04: 6 (thorough 40) base files over 6 codecs x 60 (400) structure-aware mutations (every footer field through "
         "carquet's own thrift structs, page-header fields, payload bytes, truncations, random bytes) x {fread, mmap, "
         "buffer}: fixed API call sequence in a forked child (10 s alarm, ASan/UBSan, leak check, exact-size caller "
         "buffers); tie: model open error code <-> real, nrg/nc when opened; p_safe = child exited cleanly; corpus: "
         "crafted witnesses of F51/F12 (model-predicted out-of-bounds reads, confirmed under ASan on the unrepaired code)",
    assumptions=["repaired code: fixes/F51-zero-copy-view-within-page.patch, F12-dictionary-page-size-check.patch "
                 "(bounds), F26-decoded-counts-checked.patch, F52-dictionary-index-width.patch (no uninitialised "
                 "buffer contents / undefined shifts)",
                 "allocation failure, leaks, double frees: observed under ASan/LSan in the tie, not proved (C19)",
                 "decoder accesses inside a page buffer: C08"],
    trusted_base=["forked children with alarm as hang detector; LeakSanitizer at child exit"],
    text="(reader part) proved for ALL byte strings, all three open modes and all sequences of get_column calls and page "
         "loads: every read of the file that the reader makes lies inside the file and every read of a heap copy of a page "
         "stays inside it (accesses reported as data by the model); out-of-range row-group/column indices are rejected "
         "without any access; page iteration makes progress (offsets of successful loads strictly increase, at most "
         "|file|-7 loads can succeed per column reader, a parsed page header has positive size). Two new defects found by "
         "the access-reporting model and confirmed under ASan (F51 zero-copy view past the page/file, F12 dictionary "
         "copy past the page buffer) are repaired by proposed patches; kernel-checked witnesses kept. Model tied to the "
         "real reader on ~1100 mutated files per run (open status incl. error code, row-group and column counts).",
    level_note="Lean kernel; mutation harness with ASan/UBSan/LSan in forked children; partial: heap discipline observed, not proved",
    technique="Lean 4 proof over an access-reporting model (accesses as data, offsets as a decreasing measure) + structure-aware mutation correspondence",
  ),
  "C14": dict(
    imports=[_P + "C14.Page"],
    obligations=[_P + "C14." + t for t in ("C14_page_damage_reported", "C14_dictionary_damage_reported",
                                           "C14_clean_page_accepted")],
    components=[],
    fidelity={"Impl.Reader (CRC step)": "exact: test order in the four loaders, (uint32_t) cast of the stored value"},
    rule="",
    assumptions=["damage confined to the stored page body (header damage is outside the property)"],
    trusted_base=[],
    text="page part: proved that with verification on, a data or dictionary page whose stored body differs from the body "
         "its checksum was computed over inside a window of <= 32 bits makes the loader return CRC_MISMATCH in every "
         "mode before anything is decompressed or decoded, and that a page whose body matches its checksum (or that has "
         "none, or with verification off) is never reported as a checksum mismatch",
    level_note="Lean kernel; uses C14_burst_detected",
    technique="Lean 4 proof on the page loader model",
  ),
  "C18": dict(
    imports=[_P + "C18.Open"],
    obligations=[_P + "C18." + t for t in ("C18_prefix_rejected", "C18_prefix_rejected_no_inner_magic",
                                           "C18_open_ok_structure", "C18_exception_needs_crafted_content",
                                           "C18_regression_F29")],
    components=["c18"],
    fidelity={"Impl.Reader.openFile": "exact (three paths, order of checks, error codes)",
              "Impl.ThriftParquetReq.parseFileMetaDataReq": "exact (required_seen of fix 28d9213)"},
    rule="c18/trunc: every proper prefix of 6 (thorough 100) generated files - half of them carrying a BYTE_ARRAY value "
         "that looks like a file tail (incomplete FileMetaData in short and long header form, and a COMPLETE one) - "
         "through fread/mmap/buffer open: the accepted set predicted by the model must equal the real one, and every "
         "prefix the real code accepts must be a complete file by the Spec envelope+footer predicate",
    assumptions=["CompleteFile = both magics + fitting footer length + footer decodes (Spec.Thrift) with FileMetaData's "
                 "required fields; nested required fields are not part of the predicate"],
    trusted_base=[],
    text="truncation part: proved that every proper prefix of every file the writer reports complete is refused by all "
         "three open paths or is itself a complete file (envelope + footer accepted with its required fields), that for "
         "ANY byte string without 'PAR1' strictly inside every proper prefix is refused, and - kernel-checked - that the "
         "exception really occurs with a crafted BYTE_ARRAY value and only there in that file; F29 (required fields not "
         "demanded) is fixed in /repo (28d9213) and modelled. Tied exhaustively per file: the set of accepted prefixes "
         "per mode predicted by the model equals the real one.",
    level_note="Lean kernel; exhaustive-per-file prefix harness; Spec-level completeness predicate evaluated on the real code's acceptances",
    technique="Lean 4 proof (characterisation of an accepted open) + exhaustive prefix correspondence",
  ),
}
