# component f63: repair of finding F63 (data pages without values) mirrored in the reader and column-reader models;
# `pagesNonEmpty` lifted from the hypotheses of C06_impl_reads_reference; empty pages in the generators of C06 and C02
PART = {
  "C06": dict(
    imports=["Carquet.Properties.C06.ImplReads"],
    obligations=["Carquet.Properties.C06.C06_regression_F63"],
    components=[],
    fidelity={"Impl.Reader.finishDataPage (F63)": "exact: after the size, body and checksum tests a data page whose header "
              "says num_values = 0 is reported loaded without decompression or decoding (both loaders); the `while` of "
              "carquet_read_next_page is Impl.ColumnReader.prepareLoop (fuel = number of pages + 1, bound proved)"},
    rule="refread, added by f63: data pages WITHOUT values (num_values = 0) in every chunk - at the head, behind the first "
         "page, at the end, two or three in a row in the middle, at random places (also as the only pages of a chunk without "
         "entries), head + middle + end - x the five encoding mixes (PLAIN, PLAIN_DICTIONARY, RLE_DICTIONARY, dictionary "
         "then PLAIN, PLAIN then dictionary; dictionary offset present / absent) x schema shapes (REQUIRED with the "
         "zero-copy view, OPTIONAL, REPEATED, nested, two columns, random tree) x codecs and types rotating (quick: 66 "
         "files, thorough: 666), all SUPPORTED (hyp = claim = 1); + 6 files where the last page (with values) is "
         "DATA_PAGE_V2 / another encoding next to empty pages (must be rejected); corpus/C06/fixed-F63.ops = the three "
         "witnesses of the finding (page counts 3,0,3 / 0,6 / 6,0)",
    assumptions=["the empty page's header passes the same tests as any other (type, sizes, count <= values remaining, body "
                 "inside the file, CRC when verification is on); its value encoding and the chunk's codec are NOT looked at "
                 "(nothing is decompressed or decoded): clauses 2 and 3 of C06_unsupported_rejected say `error, or a page "
                 "without values is stepped over and nothing is decoded`"],
    trusted_base=[],
    text="F63 REPAIRED AND LIFTED FROM THE HYPOTHESES: a data page with num_values = 0 (legal Parquet) made "
         "carquet_column_read_batch return 0 or a short count with values outstanding (a leading one: an error in fread mode, "
         "memset(NULL) under UBSan). Repair fixes/F63-empty-data-page-read-short.patch (both page loaders return `loaded, no "
         "rows` for such a page after the size, body and CRC tests; the `if` of carquet_read_next_page is a `while`), "
         "mirrored in Impl.Reader.finishDataPage and Impl.ColumnReader (installEmpty, prepareLoop). "
         "C06_impl_reads_reference and its class theorems no longer carry `pagesNonEmpty` (removed from fileClaimed): "
         "empty pages at the head, in the middle, at the end of a chunk, several in a row, with and without dictionary "
         "page, in every schema shape, are inside the theorem (the page iteration delivers every page up to the one that "
         "holds the chunk's last value; C02's refinement steps over the empty ones). C06_regression_F63 (kernel): the "
         "witness layout 3,0,1 is admissible and inside every limit, the loaders decode the file bytes to pages of 3, 0 "
         "and 1 rows (mapped and fread path), the column reader before the repair returns 3 of 4 entries / 3 then 0 with "
         "has_next true, after it 4 / 3 then 1, and readAll returns the table in every mode for any libraries",
    level_note="Lean kernel; refread ties on generated files with empty pages; the unpatched tree fails 38 of the quick-tier "
               "lines (35 generated + the 3 witnesses)",
    technique="repair mirrored in the executable models, proofs repaired by induction over the page-load loop",
  ),
  "C02": dict(
    imports=["Carquet.Properties.C02.Cursor"],
    obligations=[],
    components=[],
    fidelity={"Impl.ColumnReader.prepareLoop (F63)": "exact: `while (!page_loaded || page_values_read >= page_num_values) "
              "{ advance; load_next_page; }`, a page without values leaves the decoded buffers, the ownership flag and "
              "page_data_for_values untouched (installEmpty); fuel bound proved for every variant and state "
              "(C02_model_fuel_sufficient, third clause)"},
    rule="",
    assumptions=[],
    trusted_base=[],
    text="(f63) `ChunkOk` no longer asks pages to have rows: every C02 theorem (refinement of the index cursor for all "
         "histories, skip exact, batches aligned / concatenation = column content, bitmap polarity, buffers alive) holds for "
         "chunks with pages WITHOUT values anywhere; C02_regression_F63: on pages of 3, 0, 3 rows the code before the repair "
         "returns 3 for read(6) and 0 for the fourth read(1) with has_next true, the repaired code and the index cursor "
         "deliver all 6 rows",
  ),
}
