PART = {
  "C07": dict(
    imports=["Carquet.Properties.C07.Par"],
    obligations=[
      "Carquet.Properties.C07.C07_private_commute",
      "Carquet.Properties.C07.C07_mmap_schedule_independent",
      "Carquet.Properties.C07.C07_fread_atomic_sections",
      "Carquet.Properties.C07.C07_fread_pages_schedule_independent",
      "Carquet.Properties.C07.C07_adaptive_atomic_sections",
      "Carquet.Properties.C07.C07_fread_unsynchronised_counterexample",
      "Carquet.Properties.C07.C07_regression_F21",
      "Carquet.Properties.C07.C07_independent_readers",
      "Carquet.Properties.C07.C07_lazy_init_idempotent",
      "Carquet.Properties.C07.C07_lazy_init_dispatch",
      "Carquet.Properties.C07.C07_initialiser_discipline",
      "Carquet.Properties.C07.C07_tableInitialiser_discipline",
      "Carquet.Properties.C07.C07_crc_init_discipline",
      "Carquet.Properties.C07.C07_cpu_info_memset_not_idempotent",
    ],
    components=["par", "parnull"],
    fidelity={"Impl.Par": "structural"},
    rule="par: per codec (UNCOMPRESSED, SNAPPY, ZSTD) one file written by the real writer (8 REQUIRED columns "
         "INT32/INT64/FLOAT/DOUBLE/FLBA16/BOOLEAN/BYTE_ARRAY/INT32, 24576 rows quick / 61440 thorough, 8192-row row groups, "
         "1024-row pages), read by carquet_batch_reader for num_threads in {1,2,4,8,16} x {fread,mmap,buffer} under a seeded "
         "schedule of yields/sleeps injected at every fseek/fread and lazy-init site; N independent handles (3..8 pthreads) on "
         "the same file; cold-start races in a fresh fork+exec'ed process (8 handles at once, one 8/16-thread batch reader, "
         "8/16 threads calling carquet_crc32 / carquet_get_cpu_info / dispatch kernels at once); distinct = distinct "
         "(op, file seed, codec, mode, threads, batch size, schedule seed)",
    assumptions=[
      "the theorems quantify over ALL interleavings of the MODEL Impl.Par (any number of workers, any action lists); that the "
      "model's shared footprint is complete (no other state shared between the OpenMP workers, every seek/read of the fread "
      "path inside a critical section) is VALIDATED by hook traces (every run) and ThreadSanitizer (manual variant), not proved",
      "a schedule is a sequence of atomic primitive steps (sequential consistency for the modelled steps): for stdio given by "
      "the stream lock and `#pragma omp critical(carquet_file_io)`; for the lazily initialised tables it needs aligned word "
      "stores to be single-copy atomic and stores to become visible in program order, loads not reordered with older loads "
      "(x86-TSO holds it; formally these are C11 data races: crc32_tables_initialized / g_initialized are volatile, "
      "g_dispatch_initialized is a plain int, no fences on the reader side)",
      "OpenMP runtime: `omp critical` gives mutual exclusion among all threads of the process (libgomp: one global mutex per "
      "name), `omp for` gives every index to exactly one thread, implicit barrier between the prefetch and the read loop",
      "private computation (header parse, CRC check, decompression with the thread-local ZSTD_DCtx, decoding, copy into the "
      "batch column) is a deterministic function of the bytes obtained and writes only memory owned by the loop index",
      "list-based theorems fix each worker's action list (that of the sequential run); C07_adaptive_atomic_sections removes "
      "this for the repaired fread mode (next action = function of the bytes obtained so far)",
      "an initialiser's stored value is a model constant; in crc32_init_tables it is computed from cells the same thread "
      "stored earlier, which hold their final values by C07_lazy_init_idempotent (third conjunct)",
      "valid files only (C07's hypothesis): with a decode error the shared `read_error` flag makes the set of columns that "
      "consumed rows schedule-dependent",
    ],
    trusted_base=["libgomp, glibc stdio stream locking, pthreads", "hook CARQUET_VERIF (fixes/HOOK-io-events.patch): the "
                  "recorded order of events on one FILE* is the order of the calls (event + call under flockfile)"],
    timeout=1800,
  ),
}

# what the check delivers, in the component builder's words
PART['C07'].update(
    text="(partial by nature) Lean: for any number of workers and any action lists, every interleaving of the MODEL gives each worker the sequential result when actions are shared-read-only (mmap/buffer), when every seek+read pair on the shared FILE* is an atomic section (fread after fix F21), or when each reader has its own stream (N independent handles); kernel-checked counterexample for the pinned unsynchronised fread path (F21); lazy-init invariant (cells only ever hold acceptable values, flag set => table complete) for any schedule under program-order visibility. Observed, not proved: digests for num_threads 1..16 x 3 modes x 3 codecs under forced schedules equal the single-threaded ones; hook traces match the model's footprint; cold-start races in fresh processes",
    level_note='Lean kernel; hand-written structural model; hook traces + forced schedules; TSan run documented in NOTES_par.md',
    technique='Lean 4 non-interference proof over all interleavings of an action model + trace/digest correspondence to the C code')
