PART = {
  "C07": dict(
    imports=["Carquet.Properties.C07.Par", "Carquet.Properties.C07.ParDict", "Carquet.Properties.C07.ParCold"],
    obligations=[
      "Carquet.Properties.C07.C07_private_commute",
      "Carquet.Properties.C07.C07_mmap_schedule_independent",
      "Carquet.Properties.C07.C07_fread_atomic_sections",
      "Carquet.Properties.C07.C07_fread_pages_schedule_independent",
      "Carquet.Properties.C07.C07_adaptive_atomic_sections",
      "Carquet.Properties.C07.C07_fread_unsynchronised_counterexample",
      "Carquet.Properties.C07.C07_regression_F21",
      "Carquet.Properties.C07.C07_independent_readers",
      "Carquet.Properties.C07.C07_lazy_init_idempotent",
      "Carquet.Properties.C07.C07_lazy_init_dispatch",
      "Carquet.Properties.C07.C07_initialiser_discipline",
      "Carquet.Properties.C07.C07_tableInitialiser_discipline",
      "Carquet.Properties.C07.C07_crc_init_discipline",
      "Carquet.Properties.C07.C07_cpu_info_memset_not_idempotent",
      # dictionary-encoded chunks, header windows, section structure of traces (Properties/C07/ParDict.lean)
      "Carquet.Properties.C07.C07_fread_reads_schedule_independent",
      "Carquet.Properties.C07.C07_fread_dict_chunks_schedule_independent",
      "Carquet.Properties.C07.C07_chunkFreadD_shape",
      "Carquet.Properties.C07.C07_mmap_dict_chunks_schedule_independent",
      "Carquet.Properties.C07.C07_dict_modes_agree",
      "Carquet.Properties.C07.C07_dict_body_split_violates_footprint",
      "Carquet.Properties.C07.C07_adaptive_chunk_readers",
      "Carquet.Properties.C07.C07_trace_is_atomic_section_schedule",
      # cold-start batch read = sequential read, as one theorem (Properties/C07/ParCold.lean)
      "Carquet.Properties.C07.C07_fread_atomic_schedule",
      "Carquet.Properties.C07.C07_mixed_schedule_bytes",
      "Carquet.Properties.C07.C07_cold_start_batch_read",
      "Carquet.Properties.C07.C07_cold_start_columns",
      "Carquet.Properties.C07.C07_cold_unguarded_use_counterexample",
    ],
    components=["par", "parnull", "pardict", "partsan"],
    pregen={"pardict": "pardict"},
    fidelity={"Impl.Par": "structural", "Impl.ParDict": "structural"},
    rule="par: per codec (UNCOMPRESSED, SNAPPY, ZSTD) one file written by the real writer (8 REQUIRED columns "
         "INT32/INT64/FLOAT/DOUBLE/FLBA16/BOOLEAN/BYTE_ARRAY/INT32, 24576 rows quick / 61440 thorough, 8192-row row groups, "
         "1024-row pages), read by carquet_batch_reader for num_threads in {1,2,4,8,16} x {fread,mmap,buffer} under a seeded "
         "schedule of yields/sleeps injected at every fseek/fread and lazy-init site; N independent handles (3..8 pthreads) on "
         "the same file; cold-start races in a fresh fork+exec'ed process (8 handles at once, one 8/16-thread batch reader, "
         "8/16 threads calling carquet_crc32 / carquet_get_cpu_info / dispatch kernels at once); distinct = distinct "
         "(op, file seed, codec, mode, threads, batch size, schedule seed) || "
         "pardict: dictionary-encoded files from the Lean reference writer (driver --gen pardict: Spec.File.writeFull; 5 files "
         "quick / 20 thorough; 6..10 INT32/INT64/BYTE_ARRAY columns, some OPTIONAL; 8..16 row groups of 24..63 rows; in every "
         "chunk a dictionary page (3/4 with dictionary_page_offset, 1/4 found by probing) + 1..3 data pages, RLE_DICTIONARY / "
         "PLAIN_DICTIONARY, some chunks ending in PLAIN fallback pages; codecs UNCOMPRESSED / SNAPPY / LZ4_RAW; 17..27 KB), each "
         "read by carquet_batch_reader for num_threads {1,2,4,8,16} x {fread,mmap,buffer} x batch sizes {7,16,64,1000} and by 3..8 "
         "independent handles on pthreads; every line repeats its configuration (8 times for fread with >= 2 threads on a "
         "compressed file, 24 thorough) under schedules injected at the I/O yield points AND at the boundaries of the critical "
         "sections (interposed GOMP_critical_name_start/_end: record + yield after leaving a section); compared with the "
         "single-threaded reading, with the digests of the TABLE (generator) and with the table the Spec reader reads from "
         "the bytes; the section boundaries in the trace are checked against the model's footprint (every stdio access inside "
         "a section, sections never overlap, every section = [seek; read]); #stat distinct_interleavings_on_shared_stream "
         "(165 quick, 1844 thorough) || "
         "partsan (thorough tier): the components par + pardict built with clang-14 -fsanitize=thread + libomp + Archer and run "
         "at the same seed/tier; no ThreadSanitizer report outside the lazily initialised tables, all predicates true",
    assumptions=[
      "the theorems quantify over ALL interleavings of the MODEL Impl.Par (any number of workers, any action lists); that the "
      "model's shared footprint is complete (no other state shared between the OpenMP workers, every seek/read of the fread "
      "path inside a critical section) is VALIDATED by hook traces (every run) and ThreadSanitizer (manual variant), not proved",
      "a schedule is a sequence of atomic primitive steps (sequential consistency for the modelled steps): for stdio given by "
      "the stream lock and `#pragma omp critical(carquet_file_io)`; for the lazily initialised tables it needs aligned word "
      "stores to be single-copy atomic and stores to become visible in program order, loads not reordered with older loads "
      "(x86-TSO holds it; formally these are C11 data races: crc32_tables_initialized / g_initialized are volatile, "
      "g_dispatch_initialized is a plain int, no fences on the reader side)",
      "OpenMP runtime: `omp critical` gives mutual exclusion among all threads of the process (libgomp: one global mutex per "
      "name), `omp for` gives every index to exactly one thread, implicit barrier between the prefetch and the read loop",
      "private computation (header parse, CRC check, decompression with the thread-local ZSTD_DCtx, decoding, copy into the "
      "batch column) is a deterministic function of the bytes obtained and writes only memory owned by the loop index",
      "list-based theorems fix each worker's action list (that of the sequential run); C07_adaptive_atomic_sections removes "
      "this for the repaired fread mode (next action = function of the bytes obtained so far)",
      "an initialiser's stored value is a model constant; in crc32_init_tables it is computed from cells the same thread "
      "stored earlier, which hold their final values by C07_lazy_init_idempotent (third conjunct)",
      "cold-start theorem: a schedule is a sequence of turns, one model action per turn; the result of a worker is the bytes it "
      "obtained and the (flag, table) pairs its CRC computations looked up -- that the real private computation (header parse, "
      "CRC value, decompression) depends on nothing else is assumption 3 above; fairness (enough turns for the worker in "
      "question) is the only hypothesis on the schedule",
      "header windows (read_page_header_fread) and the probe of a dictionary page without dictionary_page_offset are modelled "
      "as given numbers of extra reads (PageLoc.k, ChunkLoc.probed); C07_adaptive_chunk_readers covers offsets computed from "
      "the bytes read, with an arbitrary header parser",
      "valid files only (C07's hypothesis): with a decode error the shared `read_error` flag makes the set of columns that "
      "consumed rows schedule-dependent",
    ],
    trusted_base=["libgomp, glibc stdio stream locking, pthreads", "hook CARQUET_VERIF (fixes/HOOK-io-events.patch): the "
                  "recorded order of events on one FILE* is the order of the calls (event + call under flockfile)",
                  "harness/ops_pardict.c interposes GOMP_critical_name_start/_end (forwarding to libgomp's): section events are "
                  "recorded while the lock is held, so their order is the order of the sections; the mutual exclusion itself is "
                  "observed on every trace (crit_schedule), not assumed",
                  "thorough tier: clang-14, LLVM libomp, Archer (OMPT tool), ThreadSanitizer"],
    timeout=1800,
  ),
}

# what the check delivers, in the component builder's words
PART['C07'].update(
    text="(partial by nature) Lean: for any number of workers and any action lists, every interleaving of the MODEL gives each worker the sequential result when actions are shared-read-only (mmap/buffer), when every seek+read pair on the shared FILE* is an atomic section (fread after fix F21), or when each reader has its own stream (N independent handles); kernel-checked counterexample for the pinned unsynchronised fread path (F21); lazy-init invariant (cells only ever hold acceptable values, flag set => table complete) for any schedule under program-order visibility. Observed, not proved: digests for num_threads 1..16 x 3 modes x 3 codecs under forced schedules equal the single-threaded ones; hook traces match the model's footprint; cold-start races in fresh processes. Dictionary-encoded chunks (files from the Lean reference writer, never produced by carquet's writer): model of the dictionary page load / header window retries / probed dictionary as file_read_at sections with the same schedule-independence theorems, fread = mmap; kernel-checked: splitting the dictionary body read into a seek section and a read section (seeded change C07b-2) violates the footprint condition and loses bytes under a concrete interleaving; a recorded trace that passes the section check IS the flattening of a schedule of atomic sections (C07_trace_is_atomic_section_schedule). ONE theorem for the cold start (C07_cold_start_batch_read, from C07_fread_atomic_sections + C07_lazy_init_idempotent + independence of stdio sections and table steps): under every fair schedule a worker's bytes and the table every one of its CRC computations uses are those of the sequential run. Thorough tier: ThreadSanitizer (clang + Archer) on par + pardict, no report outside the lazily initialised tables",
    level_note='Lean kernel; hand-written structural model; hook traces (I/O + critical-section boundaries) + forced schedules; ThreadSanitizer (clang/Archer) as a thorough-tier step',
    technique='Lean 4 non-interference proof over all interleavings of an action model + trace/digest correspondence to the C code')
