"""Component cfun3: third stage of the C -> Lean function translator (translate/gen_cfun.py).  On top of stage 1 (pure scalar
functions, tools/parts/cfun.py) and stage 2 (arrays, pointer walks, out-parameters, tables, tools/parts/cfun2.py) it
translates functions that READ AND WRITE A STRUCT THROUGH A POINTER: the struct type becomes a generated Lean `structure`
with exactly the fields the translated functions touch (integers as BitVec, `bool`, nested structs, fixed-size integer arrays
as lists, a pointer field as the offset into the one array it points into - that array is a separate parameter / result),
`s->f` reads a field, `s->f = e`, `s->f op= e`, `s->f++` are functional updates, the final struct is a result component,
calls to other translated functions that take the same struct (`refill_buffer(reader)`, `read_byte_raw(dec)`,
`carquet_buffer_reader_read_byte(&dec->reader, &b)`) thread the callee's effect on struct and buffers back, `memcpy` with a
run-time length between two modelled arrays and into locals (little-endian partial load) and run-time `memset` are modelled
with both ranges in `_defined`.  The small state machines of carquet - the bit reader and bit writer of bitpack.c, the read
cursor of buffer.c, the primitive readers and the error latch of the Thrift compact decoder, carquet_bitunpack_32 - are
thereby regenerated from the C source on every run, and link theorems (Properties/Cnn/CFun3.lean) prove them equal to the
hand-written Impl models the property theorems are about, through executable abstraction functions (Impl/CFun3/*.lean) that
the driver also evaluates on every self-check line.  Same self-check component as stages 1-2 (`cfun`, op `cfun3`): a struct
argument travels field by field, buffers as hex strings into exact-size heap allocations, the real function is called only
where the generated `_defined` holds, every field of the struct after the call and every buffer is compared."""

_TECH = ("Lean 4 proof over definitions regenerated from the C source by a clang-AST translator (structs passed by pointer as "
         "generated Lean structures, callee effects threaded, run-time-length memcpy) + differential self-check of the "
         "translator under ASan/UBSan")
_TRUST = ["clang-14's typed JSON AST of the current source (incl. the record layout of the struct types)",
          "translate/gen_cfun.py stage 3 (struct fields as state variables, structs re-assembled at calls and returns, pointer "
          "fields as offsets into one array, hoisting of a call with out-results out of an expression) and the additions to "
          "lean/Carquet/Impl/CSem.lean (copyInto, ldPartLE); validated on every run against the compiled functions on "
          "exact-size heap buffers with every struct field compared (component cfun, op cfun3), by the 8 synthetic struct "
          "functions of harness/cfun_synth.h, and by 14 translator mutants (notes/NOTES_cfun3.md)",
          "lean/Carquet/Impl/CFun3/*.lean: the abstraction functions and invariants (documented preconditions) the link theorems "
          "are stated with; executable, evaluated by the driver on every self-check line (modelLink3 / definedClaim3)"]
_ASSUME = ["a pointer-to-struct parameter is valid and non-NULL (`assert(p != NULL)` is dropped under this assumption; any other "
           "assert condition becomes a conjunct of `_defined`); two struct parameters, and a struct and the arrays its pointer "
           "fields point into, do not overlap",
           "a pointer FIELD points into exactly one array for the whole function (an implicit array parameter `<param>_<field>`, "
           "or the array parameter named by `fieldbase` when the function itself assigns the field); the translator rejects a "
           "field that is re-aimed at another array",
           "the text of `thrift_decoder_t.error_message` is not modelled: statements that only serve it (strncpy, the terminating "
           "NUL, `if (msg)`) and the `msg` parameter of set_error are skipped (STRUCT_OPAQUE / drop_params); the wrapper passes a "
           "fixed string",
           "an unassigned scalar local whose address is passed to a callee's out-parameter (`uint8_t b; read_byte(r, &b)`) is "
           "passed as 0 and counts as assigned afterwards (a callee that fails without writing would leave it indeterminate in "
           "C: read_byte_raw tests has_bytes first); an uninitialised local ARRAY handed to a callee (`uint32_t temp[8]` of "
           "carquet_bitunpack_32) is a ghost parameter `temp_indet` of the Lean function - the link theorem holds for every "
           "content",
           "a call with out-results nested in an expression (`return (int16_t)thrift_read_zigzag(dec);`, `*count = (int32_t)"
           "thrift_read_varint(dec);`) is evaluated before the rest of that expression; the translator accepts this only when "
           "the rest of the expression touches no field, no memory and no other call (the order is then immaterial)",
           "memcpy between two DIFFERENT arrays only (no overlap); little-endian host for the partial load"]
_RULE = ("cfun (op cfun3): for every stage-3 function the Lean side generates argument tuples - arrays as in stage 2; struct "
         "states: in two thirds of the tuples a state inside the invariant the link theorems assume (pointer field at the start "
         "of its array, size/capacity = length of that array, cursor in 0..size incl. both ends, bit count in 0..64 with the "
         "accumulator below 2^bits, nesting level 0..32 incl. 0/31/32, error latch mostly clear), otherwise UNREACHABLE states "
         "(cursor beyond the end, size larger or smaller than the array, negative or >64 bit count, stale accumulator bits, a "
         "pointer into the middle of the array, nesting level -1/33, a latched status, random patterns), bit counts 0..65/-1/100, "
         "directed tuples for carquet_bitunpack_32 (count 0..40, width 0..33, input exactly / one short of the packed size) - "
         "together with the generated `_defined` verdict; the harness builds the C struct with its pointer fields aimed into "
         "exact-size heap copies of the arrays and calls the REAL function for defined tuples only; the driver compares the "
         "returned value, EVERY field of the struct after the call, every out-parameter and every buffer, the UBSan counter, and "
         "evaluates the model side of the link theorems (model_link_*: abstraction of the C result = Impl model on the "
         "abstraction of the argument) and their `_defined` side (model_link_defined_*); distinct = distinct (function, "
         "arguments)")
_FID = {"Gen.CFun stage 3 (struct state machines translated from C on every run: bit reader/writer, buffer cursor, Thrift "
        "decoder primitives, carquet_bitunpack_32)": "generated"}


def _p(pid, names, text):
    return dict(
        imports=[f"Carquet.Properties.{pid}.CFun3"],
        obligations=[f"Carquet.Properties.{pid}.{pid}_cfun_{n}" for n in names],
        components=["cfun"],
        pregen={"cfun": "cfun"},
        fidelity=_FID,
        rule=_RULE,
        assumptions=_ASSUME,
        trusted_base=_TRUST,
        text=text,
        technique=_TECH,
        level_note="Lean kernel; clang-14 AST; gen_cfun.py stage 3 + CSem.lean (self-checked against the compiled functions, "
                   "every struct field and buffer compared, every run)",
    )


def _wd(names):
    out = []
    for n in names:
        out += [n, n + "_defined"]
    return out


PART = {
  "C11": _p("C11", _wd(["bit_reader_init", "refill_buffer", "bit_reader_read_bit", "bit_reader_read_bits", "bit_reader_read_bits64",
                        "bit_reader_has_more", "bit_reader_remaining_bits", "bit_writer_init", "flush_buffer",
                        "bit_writer_write_bit", "bit_writer_write_bits", "bit_writer_write_bits64", "bit_writer_flush",
                        "bit_writer_bytes_written", "bitunpack8_32", "bitunpack_32", "rle_decoder_init",
                        "rle_decoder_has_next", "fill_bitpack_buffer"]),
            "translated-state-machine tie (component cfun, stage 3): the bit reader (carquet_bit_reader_init, refill_buffer, "
            "_read_bit, _read_bits, _read_bits64, _has_more, _remaining_bits) and the bit writer (carquet_bit_writer_init, "
            "flush_buffer, _write_bit, _write_bits, _write_bits64, _flush, _bytes_written) of src/core/bitpack.c as translated "
            "from the current C source - struct fields byte_pos / buffer / buffer_bits, the refill and flush loops, the callee "
            "effects threaded through every caller - are proved equal to Impl.BitIO (the model C11_bitio_roundtrip is about) "
            "under the invariant of a live reader / writer, with the invariant preserved, nothing outside the model's bytes "
            "touched and no undefined behaviour (every data[byte_pos] inside the buffer, every shift below 64, fuel "
            "sufficient); carquet_bitunpack8_32 is now linked to Impl.Bitpack.unpack8 at EVERY width 0..32 (the bit-level "
            "invariant of the general loop nest, closing C11_cfun_bitunpack8_32_partial) and its caller carquet_bitunpack_32 "
            "(groups of 8 through `values + i`, the zero-padded 32-byte tail copy by run-time memcpy, run-time memset) to "
            "Impl.Bitpack.unpack for every count < 2^61; the non-recursive pieces of the RLE hybrid decoder (carquet_rle_decoder_init "
            "with its whole-struct memset and the F80 width latch, _has_next, fill_bitpack_buffer with the group unpacked into the "
            "array field bitpack_buffer) are proved equal to Impl.Rle.Dec.init / hasNext / fill"),
  "C08": _p("C08", ["refill_buffer_defined", "bit_reader_read_bit_defined", "bit_reader_read_bits_defined",
                    "bit_reader_read_bits64_defined", "flush_buffer_defined", "bit_writer_write_bit_defined",
                    "bit_writer_write_bits_defined", "bit_writer_write_bits64_defined", "bit_writer_flush_defined",
                    "bitunpack_32_defined", "fill_bitpack_buffer_defined"] +
            _wd(["buffer_reader_init_data", "buffer_reader_skip", "buffer_reader_read", "buffer_reader_read_byte",
                 "buffer_reader_read_u16_le", "buffer_reader_read_u32_le", "buffer_reader_read_u64_le"]),
            "translated-state-machine tie (component cfun, stage 3): for the bit reader, the bit writer and "
            "carquet_bitunpack_32 as translated from the current C source, `_defined` is proved under the documented "
            "invariant for EVERY content of the buffers - every read inside data[0..size), every write inside the declared "
            "capacity, the tail group of carquet_bitunpack_32 touching only packed_size(count % 8) bytes (F32); the read cursor "
            "of src/core/buffer.c (carquet_buffer_reader_init_data, _read with its run-time memcpy into the caller's buffer, "
            "_skip, _read_byte, _read_u16/u32/u64_le) is proved equal, call by call (status, value, new position), to "
            "Impl.BufferReader.step with the repaired `has` (the model C08_bufreader_reads_in_input is about), a failed read "
            "leaving cursor and destination untouched"),
  "C13": _p("C13", ["buffer_reader_init_data", "buffer_reader_read_byte", "buffer_reader_read_byte_defined", "buffer_reader_skip",
                    "buffer_reader_skip_defined"] +
            _wd(["set_error", "read_byte_raw", "thrift_read_varint", "thrift_read_zigzag", "thrift_read_byte", "thrift_read_i16",
                 "thrift_read_i32", "thrift_read_i64", "thrift_read_bool", "thrift_read_struct_begin",
                 "thrift_read_struct_end", "thrift_read_list_begin", "thrift_read_field_begin"]),
            "translated-state-machine tie (component cfun, stage 3): the primitive readers of the Thrift compact decoder "
            "(src/thrift/thrift_decode.c: set_error - the first error sticks -, read_byte_raw, thrift_read_varint with its "
            "10-byte loop, _zigzag, _byte, _i16, _i32, _i64 with their truncating casts, _bool with the pending flag, "
            "_struct_begin / _end on the last_field_id stack, _field_begin with delta and long form, pending booleans and the "
            "int16 wrap of prev + delta, _list_begin with the nibble-15 varint count and both count checks) as translated from "
            "the current C source are proved equal to Impl.Thrift.Dec (the decoder model of the C13 round-trip theorems) through "
            "the abstraction decAbs (rest = bytes from pos, lastId = the live part of last_field_id innermost first, status "
            "code -> Option Err), for every byte content, with the decoder invariant preserved"),
  "C04": _p("C04", ["read_byte_raw_defined", "thrift_read_varint_defined", "thrift_read_field_begin_defined",
                    "thrift_read_list_begin_defined", "thrift_read_struct_begin_defined"],
            "translated-state-machine tie (component cfun, stage 3): whatever the file bytes are, the Thrift primitives as "
            "translated from the current C source touch only data[0..size) and last_field_id[0..32): `_defined` of "
            "read_byte_raw, thrift_read_varint (no shift by 64 or more, fuel for the ten bytes), thrift_read_field_begin "
            "(prev + delta computed in int, index nesting_level - 1 in 0..31), thrift_read_list_begin and "
            "thrift_read_struct_begin (at nesting level 32 the error is latched and last_field_id[32] is not written) is "
            "proved under the decoder invariant for every input"),
}
