_OBL = ["Carquet.Properties.C02." + t for t in [
    "C02_column_refines_cursor", "C02_encoding_faithful", "C02_skip_exact",
    "C02_batch_rows_aligned", "C02_batches_concat_eq_column", "C02_bitmap_polarity",
    "C02_projection_by_name_eq_by_index", "C02_returned_buffers_alive", "C02_model_fuel_sufficient",
    "C02_regression_F4", "C02_regression_F4_cross_page", "C02_regression_F5", "C02_regression_F28",
    "C02_regression_F63",
]]
_RULE = ("cursor: files written by the real writer (INT32/INT64/DOUBLE/BYTE_ARRAY/BOOLEAN, REQUIRED/OPTIONAL, "
         "1..6 pages per chunk = one write_batch per page with page_size 1, confirmed by walking the page headers; "
         "data pages WITHOUT values (F63; the real writer never emits one, so they are spliced into the written file: header "
         "by carquet's own parquet_write_page_header, footer re-serialised by parquet_write_file_metadata) at the head / in "
         "the middle / at the end of a chunk, one or two in a row, in a quarter of the random files and in directed and "
         "exhaustive scopes; "
         "1..3 columns x 1..3 row groups, UNCOMPRESSED/SNAPPY; null patterns none/all/random/alternating/sparse/dense; "
         "optional CRC-damaged page) x histories read k|skip k|has|rem|recreate (k incl. 0, negative, page-crossing, "
         "> remaining, > 1024) on fread/mmap/buffer; quick: all histories of length <= 3 (k in 0..4) on one two-page "
         "chunk + length <= 2 on six chunks + ~1200 random; thorough: ALL histories of length <= 3 over "
         "{read k, skip k, has, rem}, k in 0..4, for every chunk of <= 10 rows in <= 3 pages (page sizes 1..4) + length 4 "
         "on two chunks + ~18000 random; batch reader drained for batch sizes 1..rows+2 x projections none/by index/"
         "by name (duplicate and unknown names, out-of-range index) x three modes; distinct = distinct (op, inputs)")
PART = {
  "C02": dict(
    imports=["Carquet.Properties.C02.Cursor"],
    obligations=_OBL,
    components=["cursor", "batlate", "schema"],
    fidelity={"Impl.ColumnReader": "exact (from a decoded page onwards; page load abstracted to decoded page | failure)",
              "Impl.BatchReader": "exact (OpenMP loops in index order)"},
    rule=_RULE,
    assumptions=[
      "page decoding (header, CRC, decompression, level and value decoding) is other components' subject: a chunk "
      "is given as its decoded pages; load failures are clean (state untouched apart from the advance)",
      "read sizes below 2^31 (the (int32_t)max_values cast is modelled; larger sizes are outside the theorems)",
      "batch reader theorems: 0 < batch_size, value_size * batch_size <= 1 GiB (the code's own allocation cap), "
      "projection non-empty and in range; num_threads = 1 in the harness (schedules are C07)",
      "allocation failures (skip's temporary, batch buffers, retire list) are not modelled here (C19)",
      "built with -fopenmp (prefetch phase compiled in), little-endian host",
    ],
    trusted_base=["carquet's own writer and thrift page-header parser as used by harness/ops_cursor.c to build "
                  "files and determine the paging (files with empty pages: also its page-header and footer serialisers)"],
    timeout=3000,
  ),
  "C03": dict(
    imports=["Carquet.Properties.C02.Cursor"],
    obligations=["Carquet.Properties.C02.C03_batch_zero_copy_transparent"],
    components=["cursor", "batlate"],
    fidelity={"Impl.BatchReader": "exact (zero-copy branch, three I/O modes as a parameter)"},
    rule=_RULE,
    assumptions=["same decoded pages in every mode (C03_page_modes_agree is the page-load component's obligation)"],
    trusted_base=[],
    timeout=3000,
  ),
}

# what the check delivers, in the component builder's words
PART['C02'].update(
    text="column reader and batch reader consumption state machines modelled exactly from 'a page has been decoded' onwards and proved to refine an index cursor over the concatenated rows for all chunks, pagings and op histories (read k/skip k/has_next/remaining/re-create); skip exact; batches aligned, concatenation = column content, bitmap polarity, projection by name = by index; byte-array page buffers alive until the next call (heap log). Chunks may contain pages without rows (F63: the page-load loop of carquet_read_next_page steps over them). Theorems are about the code with fixes F4, F5, F28, F63; the pinned behaviour is refuted by kernel-checked counterexamples replayed on the real code",
    level_note='Lean kernel; translator (skip chunk size, allocation cap); harness on files written by the real writer',
    technique='Lean 4 refinement proof (abstraction invariant over pending rows, induction on op histories / loop fuel) + line-protocol correspondence of whole histories against the C reader in three I/O modes under ASan')
PART['C03'].update(
    text='(batch part) batches of a valid file are the same in fread, mmap and buffer mode - with the zero-copy branch reachable or not - up to the ownership flag; tied by running every batch case in all three modes',
    level_note='Lean kernel; harness; page-load mode agreement is another component',
    technique='Lean 4 proof via a mode-independent abstract machine that carquet_batch_reader_next refines')
