_TEXT_C05 = ("independent reader part: every file the real writer reports complete is handed byte for byte to Spec.File.read, "
             "a whole-file Parquet reader written in Lean from the format documents and sharing nothing with carquet "
             "(envelope PAR1..len PAR1; footer through the generic Thrift decoder with the REQUIRED fields of parquet.thrift; "
             "schema tree rebuilt from the element list; column chunks inside the data region and - strict tiling - tiling it "
             "without gap or overlap in file order; page headers chaining exactly through each chunk; value counts pages -> chunk "
             "and rows pages -> chunk -> row group -> file; legal and listed encodings, legal codec tag; stored CRC = bit-serial "
             "IEEE CRC-32 of the stored page bytes; decompressed length = uncompressed_page_size, SNAPPY/LZ4 by the Spec decoders, "
             "GZIP/ZSTD through zlib/libzstd called directly by the harness; levels by the Spec RLE-hybrid decoder; true "
             "page-header statistics) and must return exactly the table the write history intends; each history is also written "
             "twice and compared byte for byte. Histories respect the documented precondition of carquet_writer_write_batch (all "
             "columns of a row group receive the same number of rows). Since fix F23 the reader also checks the byte sizes the "
             "metadata state: ColumnMetaData.total_uncompressed_size = sum over the chunk's pages of page-header length + "
             "uncompressed_page_size, RowGroup.total_byte_size = sum of the chunks' total_uncompressed_size (component f23).")
_TEXT_C06 = ("files written by Spec.File.write, a specification-following reference writer in Lean (dictionary pages with "
             "PLAIN_DICTIONARY / RLE_DICTIONARY data pages and PLAIN fallback pages in both orders, dictionary offset present "
             "or absent, duplicate and unused dictionary entries, any page split, level and index streams in any mix of RLE and "
             "bit-packed runs incl. multi-group, zero-length, padded and over-long-header runs, all eight physical types, nested "
             "schemas with optional/repeated ancestors up to depth 3, optional CRC and statistics, unknown Thrift fields of every "
             "wire type in short and long header form, codecs UNCOMPRESSED / SNAPPY (any op mix) / LZ4 / LZ4_RAW / GZIP "
             "(stored blocks) / ZSTD (raw and RLE blocks), gaps between chunks, several row groups) are read by the real reader "
             "in fread, mmap and buffer mode with four batch sizes: repetition levels, definition levels and dense values must "
             "equal the stored ones; files using data page v2, other value encodings, BIT_PACKED levels, LZO / BROTLI / unknown "
             "codec tags or a BOOLEAN dictionary must end in an error with only a correct prefix delivered; damaged files "
             "(dictionary shorter than announced, cut level / index streams, index width > 32, wrong uncompressed size) must "
             "never yield wrong values. Proved: C06_reference_selfconsistent - Spec.File.read (Spec.File.write t l) with the "
             "writer's oracle table = ok t for the WHOLE FILE and EVERY admissible layout (layoutAdm, a decidable Bool: data page v1, "
             "undamaged, PLAIN or dictionary value encoding under tag 2/8, any compression plan (LZ4 under tag 5 or 7, GZIP FNAME without zero byte), codec tag = the plans' codec, "
             "unknown fields with ids outside the parquet.thrift tables; free: schema tree, types, nesting, row groups, page split, "
             "run plans of level and index streams, index width <= 32, dictionary order/duplicates/unused entries, dictionary offset "
             "present/absent, PLAIN pages before/after dictionary pages, SNAPPY op lists, LZ4/LZ4_RAW sequence lists, GZIP stored "
             "blocks and ZSTD raw/RLE blocks through the oracle table, CRCs, page and chunk statistics, header forms, unknown fields "
             "at every level, gaps) under explicit size bounds (footer value well-formed, every total_uncompressed_size < 2^31, file "
             "< 2 GiB, chunks < 2^31 entries); the oracle table the writer emits is proved coherent (stored-block GZIP members "
             "and raw/RLE-block ZSTD frames are decodable), and the theorem also holds for any foreign table that maps the "
             "stored bodies to their contents; all hypotheses are one decidable Bool (Spec.File.selfConsistencyHyp) which the "
             "generator evaluates per file (hyp=1 on every supported file, 0 on every unsupported / damaged one, checked as a "
             "model tie); layers as separate theorems (envelope, Thrift round trip "
             "for every header form, footer extraction, unknown fields threaded through every extraction function, schema tree, "
             "levels, PLAIN and dictionary values, compressed bodies, page, page chaining, chunk with and without dictionary page); "
             "the PLAIN-class theorem C06_reference_selfconsistent_partial is kept. The equation is additionally evaluated at run "
             "time for every generated file (selfcheck). "
             "Eight defects of the reader found and repaired (F12 F26 F27 F52 F53 F54 F55 F58).")
_TEXT_C16 = ("page-header statistics of files written by the real writer are checked by the independent reader for every page "
             "of every chunk: null_count must equal the number of entries of THAT page below the maximum definition level, and "
             "min <= every value of the page <= max in the type's statistics order (Spec.Order); a page whose header lies is "
             "rejected with its own reason (statsNullCountWrong / statsMinWrong / statsMaxWrong). Multi-page chunks with nulls "
             "in every page are generated deliberately. Proved: statistics the independent reader accepts are true of the page "
             "(C16_accepted_page_statistics_true), and the statistics the reference writer computes are accepted.")
PART = {
  "C05": dict(
    imports=["Carquet.Properties.C05.SpecFile"],
    obligations=["Carquet.Properties.C05.C05_envelope_accepted", "Carquet.Properties.C05.C05_envelope_only",
                 "Carquet.Properties.C05.C05_writer_envelope_accepted"],
    components=["filespec"],
    fidelity={"Spec.File.read": "independent reader (Spec layer; no Impl import)"},
    rule="filespec: the case generator of `file` (flat schemas of 1..4 columns over the 7 writable types, REQUIRED/OPTIONAL, "
         "6 codec tags, page_size 1 B..1 MiB, 0..3 row groups, 1..4 batches per column) + per type a two-column file with "
         "2..4 one-batch pages whose null pattern differs per page; every file written twice; distinct = distinct histories",
    assumptions=["GZIP / ZSTD page bodies are what zlib / libzstd, called directly, decompress them to (oracle table in the line)",
                 "well-formed histories: within a row group every column receives the same number of rows (documented precondition "
                 "of carquet_writer_write_batch in carquet.h; the pinned test nested_schema_levels relies on close accepting otherwise)"],
    trusted_base=["zlib and libzstd as decompression oracle for GZIP / ZSTD page bodies"],
    text=_TEXT_C05,
    level_note="Lean kernel; harness; Spec reader written from the format documents (cross-checked against the real reader on "
               "reference-written files under C06)",
    technique="independent executable format specification in Lean evaluated on every file the real writer produces",
  ),
  "C06": dict(
    imports=["Carquet.Properties.C06.SpecFile", "Carquet.Properties.C06.SpecFileFull"],
    obligations=["Carquet.Properties.C06.C06_envelope_roundtrip",
                 "Carquet.Properties.C06.C06_thrift_forms_roundtrip",
                 "Carquet.Properties.C06.C06_footer_thrift_roundtrip",
                 "Carquet.Properties.C06.C06_unknown_fields_ignored",
                 "Carquet.Properties.C06.C06_levels_roundtrip",
                 "Carquet.Properties.C06.C06_plain_values_roundtrip",
                 "Carquet.Properties.C06.C06_assemble_roundtrip",
                 "Carquet.Properties.C06.C06_page_roundtrip",
                 "Carquet.Properties.C06.C06_page_chaining",
                 "Carquet.Properties.C06.C06_chunk_roundtrip",
                 "Carquet.Properties.C06.C06_reference_selfconsistent_partial",
                 "Carquet.Properties.C06.C06_values_roundtrip",
                 "Carquet.Properties.C06.C06_compressed_body_roundtrip",
                 "Carquet.Properties.C06.C06_unknown_fields_threaded",
                 "Carquet.Properties.C06.C06_page_chaining_full",
                 "Carquet.Properties.C06.C06_chunk_roundtrip_dictionary",
                 "Carquet.Properties.C06.C06_admissible_sound",
                 "Carquet.Properties.C06.C06_reference_selfconsistent",
                 "Carquet.Properties.C06.C06_reference_selfconsistent_oracle",
                 "Carquet.Properties.C06.C06_writer_oracle_coherent",
                 "Carquet.Properties.C06.C06_reference_selfconsistent_write",
                 "Carquet.Properties.C06.C06_reference_selfconsistent_checked"],
    components=["refread"],
    pregen={"refread": "reffiles"},
    fidelity={"Spec.File.write / Spec.File.read": "Spec layer (reference writer and independent reader)"},
    rule="refread: files from `driver --gen reffiles`: primary grid physical type (8) x codec (6) x value encoding (PLAIN, "
         "PLAIN_DICTIONARY, RLE_DICTIONARY, dictionary then PLAIN pages, PLAIN then dictionary pages) x schema shape (flat "
         "required / optional / repeated, optional group, depth 3 with repeated and optional ancestors, two columns, random "
         "tree); secondary choices from one seeded PRNG: page split, run plans, header forms, unknown fields, CRC, statistics, "
         "dictionary offset present/absent, dictionary order/duplicates/unused entries, index width up to 32, gaps, 1..3 row "
         "groups, zero-row groups; quick: every (type, codec) and every (encoding, shape) pair, thorough: the full cross "
         "product x page split; + directed zero-copy transition files; + 7 unsupported-feature classes; + 5 damaged-file "
         "classes; each file read in 3 I/O modes x batch sizes {whole chunk, 1, 3, 7}; distinct = distinct files",
    assumptions=["sibling columns of a nested schema are filled independently (each column is a valid Dremel shredding of "
                 "some record stream; carquet reads columns independently)",
                 "statistics order of FLOAT/DOUBLE as in C16 (NaN above everything)"],
    trusted_base=["zlib / libzstd inside carquet's wrappers decode the stored-block gzip members and raw/RLE-block zstd frames "
                  "the reference writer produces (so the container encoders of the Spec are cross-checked by real decoders)"],
    text=_TEXT_C06,
    level_note="Lean kernel; Lean-side generator; harness",
    technique="reference writer + independent reader in Lean (round-trip lemmas per layer), files executed on the real reader",
  ),
  "C16": dict(
    imports=["Carquet.Properties.C16.SpecFile"],
    obligations=["Carquet.Properties.C16.C16_accepted_page_statistics_true",
                 "Carquet.Properties.C16.C16_reference_statistics_accepted"],
    components=["filespec"],
    rule="filespec (see C05): page statistics of every page of every carquet-written file, multi-page chunks with nulls",
    text=_TEXT_C16,
  ),
}
