# the reference-written files of C06 (driver --gen reffiles: dictionary pages, PLAIN<->dictionary transitions, nested
# schemas, every codec, unsupported and damaged classes) exercised for two other properties, each with its own predicate
PART = {
  "C03": dict(
    components=["refmodes"],
    pregen={"refmodes": "reffiles"},
    rule="refmodes: every SUPPORTED reference file (see C06) read through fread, mmap and buffer with batch sizes "
         "{whole chunk, 1, 3, 7}: all twelve readings must be equal (levels, values, status); distinct = distinct files",
  ),
  "C04": dict(
    components=["refsafe"],
    pregen={"refsafe": "reffiles"},
    rule="refsafe: every reference file (supported, unsupported-feature and damaged classes, see C06) read through the three "
         "modes x four batch sizes under ASan/UBSan with exact-size caller buffers: no crash, no sanitizer report; "
         "distinct = distinct files",
  ),
}
