_COMMON = dict(
    components=["rle"],
    fidelity={"Impl.Varint": "exact", "Impl.Bitpack": "exact (byte buffers represented by their little-endian integer)",
              "Impl.Rle": "exact (nested get_batch/skip loops flattened; (data,pos) as unread suffix)"},
    assumptions=[
        "bit width w <= 32 (above 32 the C code has a stack overflow in flush_rle/flush_bitpack and undefined "
        "shifts in the decoder: outside the model, see NOTES_rle.md)",
        "the models are those of the code repaired by fixes/F1, F30, F31, F32, F33; on the pinned tree the "
        "harness reports the violations (replays in NOTES_rle.md)",
        "values handed to the encoder are < 2^w; levels are non-negative int16 < 2^w",
        "int64 repeat_count / run_remaining never overflow (2^63 values); buffer allocation never fails "
        "(carquet_buffer_append results are ignored by rle.c)",
        "little-endian host (carquet_read_u32_le is a memcpy)",
        "run headers are unsigned 32-bit varints (<= 5 bytes), as in parquet-java and Arrow (Spec scope decision)",
    ],
    trusted_base=["my transcription of the Parquet Encodings document in Spec/RleHybrid.lean and Spec/BitPack.lean "
                  "(checked against the document's 3-bit example and hand-computed vectors)"],
)
PART = {
  "C11": dict(
    imports=["Carquet.Properties.C11.Rle"],
    obligations=["Carquet.Properties.C11." + t for t in (
        "C11_varint_roundtrip", "C11_zigzag_roundtrip", "C11_bitpack_roundtrip", "C11_unpack_special_eq_general",
        "C11_rle_roundtrip", "C11_rle_levels_roundtrip", "C11_rle_stream_eq_oneshot", "C11_rle_history_roundtrip",
        "C11_regression_F1", "C11_regression_F30", "C11_regression_F32", "C11_regression_F33", "C11_regression_F58")],
    rule="rle: regression witnesses (F1 F30 F31 F32 F33) first; varint boundaries of every byte length + random + "
         "arbitrary bytes; pack8/unpack8 at every width 0..32 x fill kinds, pack/unpack with tails n=0..18 (40); "
         "exhaustive: all sequences of length <= 8 (thorough 12) over {0,1} at width 1 through encode_all and "
         "encode_levels, thorough also <= 12 over {0,1,3} at width 2 and over {0,1,max}: <= 10 at widths 7,8,9,32 (values and levels), length 11 at all four and length 12 at width 8 (values only); "
         "run-structured random sequences (run/literal segment lengths around 1,7,8,9,16,64,128) at every width, "
         "also via put/put_repeat/flush histories; encoder histories with flushes anywhere: all histories of <= 4 "
         "(thorough 6) calls over {f,p0,p1,r1x3,r0x8,r1x9} at width 1 and <= 3 (5) at width 3, each followed by a final "
         "flush, plus random ones at every width (the driver checks that everything the Spec decoder reads is the "
         "values put with < 8 zeros at each flush point, and that the padding counts are the model's flushPads); "
         "decoder on every prefix / one flipped byte / appended garbage of "
         "real encodings, on grammar-generated streams and on random bytes; streaming histories random and all "
         "histories of depth <= 3 (5) over {g,b1,b7,b9,s1,s8} on three fixed streams; exact-size buffers; "
         "distinct = distinct (op, inputs)",
    **_COMMON,
  ),
  "C12": dict(
    imports=["Carquet.Properties.C12.Rle"],
    obligations=["Carquet.Properties.C12." + t for t in (
        "C12_rle_encoder_emits_stream", "C12_rle_impl_to_spec", "C12_rle_history_to_spec", "C12_rle_spec_to_impl",
        "C12_rle_spec_encoder_sound", "C12_bitpack_impl_eq_spec", "C12_varint_impl_eq_spec", "C12_regression_F31")],
    rule="rle: same op stream as C11; the C12 predicates are the driver's Spec checks: Spec decoder recovers the "
         "input from every byte string the real encoders emitted (rle_enc, lev_enc, rle_encops, rle_bigrun), Spec "
         "packing equals the real packer's bytes, and whenever the Spec decoder accepts a byte string (grammar-"
         "generated legal forms: multi-group runs, zero-length runs with value bytes, padded final groups, "
         "over-long headers; mutated and random strings) the real decoders returned the same values",
    **_COMMON,
  ),
}

# what the check delivers, in the component builder's words

# what the check delivers, in the component builder's words
PART['C11'].update(
    text='(RLE part) varint/zigzag, raw bit packing and the RLE/bit-packed hybrid (values and int16 levels, with and without length prefix): Lean theorems decode(encode v) = v for every width 0..32 and every sequence, and for every put/put_repeat/flush history of the encoder state machine (flushes anywhere: the values put, in order, with the < 8 zeros of padding each flush adds to a partial group), stream decoder = cursor over the one-shot decode for arbitrary bytes; models tied to rle.c / bitpack.c / endian.h by differential execution',
    level_note='Lean kernel; harness; model of the repaired code (fixes/F1, F30, F31, F32, F33)',
    technique='Lean 4 proof over executable model + differential correspondence to the C code')
PART['C12'].update(
    text="(RLE part) bytes of carquet's RLE/bit-pack encoders (one-shot and every put/put_repeat/flush history) are complete runs of the Spec grammar and are decoded by an independent Spec decoder; carquet's decoders return the values of every stream of the Spec grammar (multi-group runs, zero-length runs, padded final groups, over-long headers); bit packing equals the Spec's LSB-first packing",
    level_note='Lean kernel; harness; my transcription of the Parquet Encodings document (Spec/RleHybrid, Spec/BitPack)',
    technique='Lean 4 proof over executable model + Spec grammar; differential correspondence to the C code')
