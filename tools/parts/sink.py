PART = {
  "C18": dict(
    imports=["Carquet.Properties.C18.Sink"],
    obligations=["Carquet.Properties.C18." + t for t in
                 ("C18_ok_implies_all_bytes", "C18_sink_failure_surfaces", "C18_regression_F17")],
    components=["c18"],
    fidelity={"Impl.Sink": "structural (stdio contract + the writer's checked call sequence)"},
    rule="c18: every proper prefix of 6 (thorough 100) generated files (half of them carrying BYTE_ARRAY values that "
         "look like a file tail) through fread/mmap/buffer open; writer on fopencookie streams failing at every k-th "
         "byte (step), every k-th operation, once transiently, and on /dev/full, in unbuffered / 64-byte / default "
         "buffering; abort at every step. distinct = distinct (case, fault point)",
    assumptions=["stdio contract: bytes accepted by fwrite are delivered or pending; a failed push makes the call "
                 "report failure and sets the sticky error indicator (glibc behaviour observed through fopencookie)"],
    trusted_base=["fopencookie streams and /dev/full as the failing sinks"],
    text="stream part proved: for every history of writer calls and every buffering policy / failure point "
         "of the underlying FILE* (oracle-quantified stdio contract), OK from close implies every byte of every call reached "
         "the sink in order and every earlier call had returned OK; any failing stream operation makes close return non-OK "
         "(C18_ok_implies_all_bytes, C18_sink_failure_surfaces; the pre-fix close is kept as a kernel-checked counterexample). "
         "Tie: the real writer on fopencookie sinks failing at every byte offset (step) / every operation / once transiently, "
         "in three buffering modes, and on /dev/full; abort at every step leaves no file; every proper prefix of generated "
         "files (including ones carrying byte-array values that look like a file tail) is offered to the three open paths. "
         " The open paths and the prefix theorem (C18_prefix_rejected) are the reader part below.",
    level_note="Lean kernel; harness (fopencookie, /dev/full); stdio modelled by its contract, not glibc's algorithm",
    technique="Lean 4 proof over an oracle-quantified stream contract + fault enumeration on the real writer; exhaustive prefix enumeration per file",
  ),
}
