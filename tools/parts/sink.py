PART = {
  "C18": dict(
    imports=["Carquet.Properties.C18.Sink", "Carquet.Properties.C18.WriterSink"],
    obligations=["Carquet.Properties.C18." + t for t in
                 ("C18_ok_implies_all_bytes", "C18_sink_failure_surfaces", "C18_regression_F17",
                  "C18_writer_healthy_stream", "C18_writer_close_ok_implies_file",
                  "C18_writer_close_ok_file_of_ok_calls", "C18_writer_close_ok_structurally_valid",
                  "C18_writer_failure_surfaces", "C18_writer_failed_call_poisons_close",
                  "C18_writer_failed_call_state", "C18_regression_F42")],
    components=["c18"],
    fidelity={"Impl.Sink": "structural (stdio contract: delivered / pending / sticky error indicator; a failed push may keep or lose what was not taken)",
              "Impl.WriterSink": "exact (file_writer.c on a failing stream: which call checks what, header and row group retried, "
                                 "file_offset / total_byte_size bookkeeping after a failure, ferror and fclose at close)"},
    rule="c18: every proper prefix of 6 (thorough 100) generated files (half of them carrying BYTE_ARRAY values that "
         "look like a file tail) through fread/mmap/buffer open; writer on fopencookie streams failing at every k-th "
         "byte (step), every k-th operation, once transiently, and on /dev/full, unbuffered / with a 64-byte user buffer / "
         "with the default 8 KiB buffer, plus directed histories whose row groups exceed the 8 KiB buffer with faults at the "
         "block boundaries; abort at every step. distinct = distinct (case, fault point)",
    assumptions=["stdio contract: bytes accepted by fwrite are delivered or pending; a failed push makes the call "
                 "report failure and sets the sticky error indicator; what was not taken may stay pending or be lost "
                 "(glibc behaviour observed through fopencookie: every sink operation is logged and compared)",
                 "the caller does not clear the error indicator of a borrowed stream (clearerr) between calls"],
    trusted_base=["fopencookie streams and /dev/full as the failing sinks",
                  "Driver/Ops/Sink.lean `bench`: the harness's fault schedule and glibc 2.36 buffering written down as an environment "
                  "(tied on every line by the logged sink operations; the theorems do not depend on it)"],
    text="stream part proved: for every history of writer calls and every buffering policy / failure point "
         "of the underlying FILE* (oracle-quantified stdio contract), OK from close implies every byte of every call reached "
         "the sink in order and every earlier call had returned OK; any failing stream operation makes close return non-OK "
         "(C18_ok_implies_all_bytes, C18_sink_failure_surfaces; the pre-fix close is kept as a kernel-checked counterexample). "
         "Composed with the writer (Impl.WriterSink = file_writer.c call by call on a stream that may fail, built from Impl.Writer and "
         "Impl.Sink; on a never-failing stream it IS Impl.Writer: C18_writer_healthy_stream): for every schema, options, history and every "
         "environment (adaptive oracle: any buffering, any fault schedule, bytes kept or lost after a failure), owned or borrowed stream: "
         "OK from close implies the sink holds exactly fileOf(history) - the file of the sub-history of the calls that returned OK - with "
         "the Parquet envelope and tiling footer of C05, nothing pending, no stream operation failed, every call returned its healthy status "
         "(C18_writer_close_ok_implies_file, _file_of_ok_calls, _structurally_valid); any failed stream operation makes close return "
         "non-OK (C18_writer_failure_surfaces); after a call that reported FILE_WRITE the caller may carry on or retry, close still does "
         "not return OK (C18_writer_failed_call_poisons_close; the close without the ferror check = seeded change C05b-2 is the "
         "kernel-checked counterexample C18_regression_F42: OK with stray bytes and both batches merged into one row group; since fix F23 a "
         "retried finalisation no longer doubles total_byte_size, the model's `carry` component is gone). "
         "Tie: the driver RUNS this model in the harness's environment (fault schedule + glibc buffering) and compares, per line, the status "
         "of every call, the failure flag, the number AND content (hash) of the bytes the sink holds and every sink operation call by call, "
         "in all three buffering modes, for faults at every byte offset (step) / every operation / once transiently (statuses only for /dev/full); "
         "abort at every step leaves no file; every proper prefix of generated "
         "files (including ones carrying byte-array values that look like a file tail) is offered to the three open paths. "
         " The open paths and the prefix theorem (C18_prefix_rejected) are the reader part below.",
    level_note="Lean kernel; harness (fopencookie, /dev/full); stdio modelled by its contract, not glibc's algorithm",
    technique="Lean 4 proof over an oracle-quantified stream contract composed with the writer model + fault enumeration on the real writer; exhaustive prefix enumeration per file",
  ),
}
