PART = {
  "C18": dict(
    imports=["Carquet.Properties.C18.Sink"],
    obligations=["Carquet.Properties.C18." + t for t in
                 ("C18_ok_implies_all_bytes", "C18_sink_failure_surfaces", "C18_regression_F17")],
    components=["c18"],
    fidelity={"Impl.Sink": "structural (stdio contract + the writer's checked call sequence)"},
    rule="c18: every proper prefix of 6 (thorough 100) generated files (half of them carrying BYTE_ARRAY values that "
         "look like a file tail) through fread/mmap/buffer open; writer on fopencookie streams failing at every k-th "
         "byte (step), every k-th operation, once transiently, and on /dev/full, in unbuffered / 64-byte / default "
         "buffering; abort at every step. distinct = distinct (case, fault point)",
    assumptions=["stdio contract: bytes accepted by fwrite are delivered or pending; a failed push makes the call "
                 "report failure and sets the sticky error indicator (glibc behaviour observed through fopencookie)"],
    trusted_base=["fopencookie streams and /dev/full as the failing sinks"],
  ),
}
