_OBL = ["Carquet.Properties.C19.C19_arena_alloc_disjoint_in_block", "Carquet.Properties.C19.C19_arena_alloc_sequence_disjoint",
        "Carquet.Properties.C19.C19_buffer_inv", "Carquet.Properties.C19.C19_buffer_append_ok_content"]
_IMP = ["Carquet.Properties.C19.Alloc", "Carquet.Properties.C19.AllocExt"]
_RULE = ("arena: the arena / buffer op streams of the C19 tie (allocation sequences with sizes around the 64 KiB block size, alignments "
         "0..64, block sizes 4096 / 65536 / random; buffer append / reserve / advance histories) without fault scenarios: offsets, "
         "block accounting and contents compared with Impl.Arena / Impl.Buffer")
def _e():
    return dict(imports=_IMP, obligations=_OBL, components=["arena"],
                fidelity={"Impl.Arena / Impl.Buffer (dependency: parsed metadata and page bytes live in arenas and buffers)": "exact"},
                rule=_RULE)
PART = {"C04": _e(), "C08": _e(), "C13": _e(), "C17": _e()}
