_RULE = ("file (op wr), logical types: about a third of the columns of every generated history are created with a logical type "
         "(carquet_schema_add_column's logical_type argument; the struct lives in an exact-size heap block whose params union holds "
         "garbage except for the members of the id, scribbled over and freed right after the call): mostly an annotation the format "
         "allows on the column's physical type - DECIMAL with scale 0 (half of them) or 0..precision and every precision the type holds "
         "(0..9 INT32, 0..18 INT64, 0..38 BYTE_ARRAY / FIXED_LEN_BYTE_ARRAY), DATE, TIME (millis on INT32, micros / nanos on INT64) and "
         "TIMESTAMP with each unit and UTC flag, INTEGER 8/16/32/64 signed and unsigned, STRING, ENUM, JSON, BSON, UUID, FLOAT16, NULL -, "
         "one in eight ANY id 0..14 (a non-NULL pointer with id UNKNOWN, MAP / LIST on a leaf) with int32 / int8 limits and varint "
         "boundaries as parameters.  Per line: (a) the file equals the writer model's file byte for byte (so field 10 of every "
         "SchemaElement, as write_logical_type emits it, is compared); (b) the metadata stages of the INDEPENDENT reader "
         "(Spec.File.readSchema: envelope, footer with the required-field and one-member-union rules of parquet.thrift, schema tree) on "
         "the REAL file must return specSchemaOf cols - every column's logical type exactly as created, no converted type - "
         "whenever close returned OK; (c) carquet_schema_node_logical_type of every element after re-opening with "
         "carquet_reader_open (fread, mmap) and carquet_reader_open_buffer: tie = the reader model's accessor on the real bytes, property = "
         "what the columns were created with (NULL for a NULL pointer or id UNKNOWN).  Lines written before logical types were generated "
         "(four fields per column) still parse: NULL pointer.  filespec (op wrspec) compares the whole table Spec.File.read returns "
         "with specTableOf cols ops, whose schema now carries the logical types")

_TEXT_C05 = ("logical types of written columns: the writer model carries the logical_type argument of carquet_schema_add_column "
             "(Impl.Writer.Col.logical; add_column_internal copies it, build_file_metadata sets has_logical_type iff id != UNKNOWN and "
             "never a converted type; write_schema_element / write_logical_type byte-exact), the independent reader Spec.File.read "
             "VALIDATES the LogicalType union of every schema element against parquet.thrift - exactly one member; DecimalType "
             "with scale and precision, TimeType / TimestampType with isAdjustedToUTC and a one-member TimeUnit, IntType with bitWidth and "
             "isSigned (all REQUIRED there), known fields of the right Thrift type, unknown ids ignored - and returns the annotation in "
             "its schema tree (Spec.Schema.Info.logicalType, next to the converted type Info.logical).  C05_spec_reader_accepts_writer "
             "therefore holds for columns WITH logical types (any id, any parameters within int32_t / int8_t) and its table states them; "
             "C05_written_logical_types: the schema the independent reader returns for a written file carries, column by column, exactly "
             "the logical types the columns were created with (nothing for a NULL pointer or id UNKNOWN) and no converted type; "
             "C05_logical_type_required_fields: in every written footer, decoded by the independent generic decoder, field 10 of every "
             "SchemaElement is absent or a union value with exactly one member whose struct has every REQUIRED field of parquet.thrift; "
             "C05_incomplete_logical_type_rejected: for ANY member struct, a DecimalType without scale or precision, a TimeType / "
             "TimestampType without isAdjustedToUTC or unit, an IntType without bitWidth or isSigned, a union or TimeUnit that does not "
             "hold exactly one member is rejected with a reason, and the error propagates to the schema element")

PART = {
  "C05": dict(
    imports=["Carquet.Properties.C05.WLogical"],
    obligations=["Carquet.Properties.C05.C05_written_logical_types",
                 "Carquet.Properties.C05.C05_specLogicalOf_cases",
                 "Carquet.Properties.C05.C05_logical_type_required_fields",
                 "Carquet.Properties.C05.C05_incomplete_logical_type_rejected"],
    components=["file"],
    fidelity={"Impl.FileReal.colLogical / schemaElementOfCol (add_column_internal + build_file_metadata, logical type)": "exact (whole files byte-equal)",
              "Spec.File.logicalTypeOf (independent reader, LogicalType union)": "Spec: written from parquet.thrift; evaluated on every real file"},
    rule=_RULE,
    assumptions=["the parameters of a column's logical type are what carquet_logical_type_t holds: int32_t scale / precision, int8_t "
                 "bit_width (SchemaSmall.logicals); the id is a value of carquet_logical_type_id_t (0..14) and the time unit a value of "
                 "carquet_time_unit_t (an out-of-range id would make write_logical_type emit an EMPTY union, which the independent "
                 "reader rejects: a caller error, not generated)",
                 "the independent reader checks the Thrift structure of the LogicalType union (one member, required fields, field "
                 "types), not whether an annotation is allowed on the column's physical type (DECIMAL precision > 0, INTEGER width "
                 "among 8/16/32/64, UUID on FLBA(16) ...): carquet does not check that either and writes what it is given",
                 "a single union member with an id outside 1..8, 10..15 (a newer annotation) is accepted and yields no annotation"],
    text=_TEXT_C05,
    technique="Lean 4: writer model extended by the logical type, independent reader extended by union validation written from "
              "parquet.thrift; byte-for-byte tie of whole files plus the independent reader and the real accessor run on every real file",
  ),
  "C01": dict(
    imports=["Carquet.Properties.C01.WLogical"],
    obligations=["Carquet.Properties.C01.C01_logical_types_read_back"],
    components=["file"],
    fidelity={"Impl.SchemaApi.nodeLogicalType on Impl.Reader.openFile (carquet_schema_node_logical_type after re-opening)": "exact"},
    rule="file (op wr): lt0 / lt1 / lt2 = carquet_schema_node_logical_type of every schema element after re-opening the written file in "
         "fread, mmap and buffer mode; compared with the reader model's accessor on the real bytes (tie) and with the logical types the "
         "columns were created with (property).  See C05 for the generation of logical types",
    text="logical types read back: C01_schema_read_back now states, per column, that carquet_schema_node_logical_type of the re-opened "
         "file returns the logical type the column was created with (id and parameters; NULL for a NULL pointer or id UNKNOWN) and that no "
         "converted type is stated; C01_logical_types_read_back says it for all elements at once in every open mode; C01_roundtrip "
         "holds for columns with logical types (instance: DECIMAL(9,0) INT32 with a null, TIMESTAMP(UTC, MICROS) INT64)",
  ),
  "C13": dict(
    imports=["Carquet.Properties.C13.WLogical"],
    obligations=["Carquet.Properties.C13.C13_written_logical_type_roundtrip",
                 "Carquet.Properties.C13.C13_colLogical_cases",
                 "Carquet.Properties.C13.C13_written_logical_type_is_compact"],
    components=["file"],
    rule="file: see C05 (field 10 of every SchemaElement of every generated footer is compared byte for byte with the model)",
    text="logical types in written footers: C13_written_footer_roundtrip holds for columns with logical types (footerOk asks for "
         "int32_t / int8_t parameters); C13_written_logical_type_roundtrip: parsing the written footer returns for column j a schema "
         "element with exactly the logical type build_file_metadata set (none for a NULL pointer / id UNKNOWN), no converted type, "
         "scale and precision 0; C13_written_logical_type_is_compact: the bytes write_logical_type emits are the canonical compact "
         "encoding of the union value parquet.thrift assigns (DECIMAL(9,0): 5c 15 00 15 12 00 00 - scale 0 is on the wire)",
  ),
  "C06": dict(
    imports=["Carquet.Properties.C06.WLogical"],
    obligations=["Carquet.Properties.C06.C06_logical_type_roundtrip",
                 "Carquet.Properties.C06.C06_schema_element_roundtrip"],
    components=[],
    rule="",
    text="the reference writer Spec.File.write states logical types (SchemaElement field 10 from Spec.Schema.Info.logicalType); "
         "C06_reference_selfconsistent covers them unchanged (instance with DECIMAL, TIMESTAMP, LIST and STRING annotations)",
  ),
}
