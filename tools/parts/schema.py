PART = {
  "C17": dict(
    imports=["Carquet.Properties.C17.Schema"],
    obligations=["Carquet.Properties.C17."+t for t in ["C17_traverse_eq_spec","C17_column_count","C17_accessors","C17_find_by_name","C17_builder_flat","C17_builder_capacity","C17_traversal_linear"]],
    components=["schema"],
    fidelity={"Impl.Schema.traverse": "exact", "Impl.Schema.Builder": "exact (flat shapes; allocation failure left to C19)"},
    rule="schema: random well-formed trees (depth<=6, <=40 elements, all repetition labelings incl. absent) through "
         "build_schema on in-memory metadata; one malformed child count per 4th tree (too many/few, zero, negative, "
         "huge); nested huge-count groups; find_column probes; builder sequences incl. lengths 63/64/65/130 and random "
         "up to 200 (thorough 1100). distinct = distinct element lists; non-trivial = all but the empty/root-only schema",
    assumptions=["names are NUL-free strings", "logical types are carried verbatim (not modelled beyond presence)"],
    trusted_base=["10 s alarm in the harness as the hang detector"],
    text="Proved for every schema tree (unbounded depth/size, all labelings): build_schema's recursive descent over the "
         "depth-first element list yields exactly the leaves in order with def/rep levels of the format rule "
         "(C17_traverse_eq_spec), column count, element accessors per column, lookup by name, and the builder for any "
         "number of add_column calls; plus a linear work bound for arbitrary (malformed) element lists. The Impl model is "
         "tied to build_schema/find_column/builder by differential execution on random well-formed and malformed trees. "
         "Nested schemas reach the real reader through in-memory metadata here (file-level tie via reference files: C06).",
    level_note="Lean kernel; hand-written Impl.Schema tied by sampled correspondence; names NUL-free; logical type carried verbatim",
    technique="Lean 4 proof by structural induction over schema trees + differential correspondence",
  ),
}
