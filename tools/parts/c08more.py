"""c08more: the decoders C08 names that had no C08 statement yet — RLE / bit-packed hybrid on arbitrary bytes with any
declared width, raw bit unpacking, bit reader / writer, buffer read cursor, Thrift parsers (registered from C04), GZIP / ZSTD
wrappers — plus the C11 / C12 statements about the bit IO pair and the delta model's bit packer."""

_RULE = ("c8rle: carquet_rle_decoder_init/get/get_batch/skip histories, carquet_rle_decode_all, _decode_levels, "
         "_decode_levels_prefixed on exact-size heap buffers; three streams per decoder (carquet's own encodings mutated by "
         "truncation / bit flip / byte smash / trailing bytes / continuation bits; grammar-generated legal streams with zero-length "
         "runs, multi-group runs, over-long headers; raw bytes) x declared widths over 0..255 (the true width, neighbours, "
         "33/39/40/41/48/63/64/65/127/128/200/255, random) x counts n, n-1, n+1, 0, -1, n+8, n+200, random; every prefix of "
         "small streams (cut before / after each header byte, run value byte, group byte, prefix byte); length prefixes exact, "
         "+-1, +2, +5, 0x7FFFFFFF, 0x80000000, 0xFFFFFFFC..FF.  c8bits: carquet_bitunpack8_32 on exactly w bytes and "
         "carquet_bitunpack_32 on exactly packed_size(n, w) bytes for every width 0..32 and counts 0..18 (thorough 0..70) + random; "
         "bit reader histories on inputs around the 8-byte refill window with bit counts 0,1,7,8,9,24,31,32,33,40,56,57,63,64,65,100; "
         "bit writer histories (write_bit / write_bits / write_bits64 with the same counts, all-ones and random values) into "
         "capacities exact, -1, +1, 0, half, generous, each read back through the real reader; uniform-width streams compared "
         "with the Spec packing; buffer cursor histories with size_t arguments 0, 1, size, size+1, 2^31-1, 2^31, 2^32-1, 2^32+5, "
         "2^63, 2^64-1, and 2^64-1-k for k <= size+16.  c8codec: snappy / lz4 / gzip / zstd decompress on valid streams with "
         "capacities n, n-1, 0, 1, n+1, n+100; every truncation of short streams, truncation before the trailer; bit flips, byte "
         "smashes, enlarged gzip ISIZE, extensions; raw bytes and >= 18 bytes of 0xFF / garbage; live-heap balance before = after "
         "every call (the cached ZSTD context is created up front); the other decoders of the C08 list (delta int32/int64, "
         "delta-length, delta-strings, dictionary int32/int64, Thrift file metadata / page header) on mutated and random inputs "
         "with the same balance.  c8thrift: FileMetaData / PageHeader with a binary length varint of 2^31-1, 2^31, 2^32-1, 2^32+5, "
         "2^63, 2^64-1, 2^64-2, 2^64-8, 2^64-16, 2^63-1, 0xFFFFFFFF00000000, 3, 200 and 2^64-1-k (k <= pos+16) at every binary site "
         "(root / leaf name, key, value, created_by, statistics min / max / min_value / max_value, unknown binary fields that are "
         "skipped at both nesting levels), input ending right behind the value or continuing; each in a forked child with a 5 s "
         "CPU-time alarm.  thrift: the C13 / C04 component (malformed, truncated, unknown-field and raw streams) run under C08 as "
         "well.  distinct = distinct (op, inputs)")

_ASSUME = [
    "little-endian host",
    "bit widths, counts and bit numbers are non-negative (negative int arguments are outside the documented domains; F80 makes "
    "the RLE decoders refuse a negative width too, not modelled)",
    "carquet_bitunpack8_32 / carquet_bitunpack_32 / carquet_bitpack_32: declared width <= 32 (bitpack.h: 'Bits per value (1-32)'; "
    "the only in-tree callers, rle.c after F80 and delta.c, keep to it); the index bound of the generic loop and the value count "
    "of carquet_bitunpack8_32 are proved for every width",
    "carquet_buffer_reader_read(dest, n): dest has n bytes (API contract); the buffer size is below 2^64",
    "GZIP / ZSTD: of the library contract only `reported size <= capacity given` is assumed (zlib avail_out accounting, "
    "ZSTD_decompressDCtx dstCapacity); zlib and libzstd are not verified",
    "heap behaviour (reads / writes of the C code at the addresses the models name, release of everything allocated by a failing "
    "call) is observed under ASan / UBSan with exact-size buffers and a live-heap counter, not proved",
]
_TRUST = [
    "__sanitizer_get_current_allocated_bytes (ASan allocator statistics) as the live-heap counter of the allocation-balance predicate",
    "__ubsan_on_report hook as the per-call detector of undefined behaviour other than memory errors",
    "zlib 1.3.1 / libzstd called directly as oracles of the wrapper model (as in C09)",
]
_FID = {
    "Impl.Rle (decoders: init/get/get_batch/skip, decode_all, decode_levels, decode_levels_prefixed; any declared width after F80)": "exact",
    "Impl.Rle.*Acc (RleAcc: the same decoders reporting every read as (offset, length))": "exact (proved equal to the decoders; offsets = pos tied)",
    "Impl.Bitpack.unpack8Idx / unpackAccs (read footprint of carquet_bitunpack8_32 / _32)": "exact",
    "Impl.BitIO (carquet_bit_reader_* / carquet_bit_writer_*)": "exact",
    "Impl.BufferReader (carquet_buffer_reader_*; size_t arithmetic modulo 2^64)": "exact",
    "Impl.CodecWrappers": "structural",
    "Impl.Thrift / Impl.ThriftParquet (as tied by the thrift component)": "exact",
}

PART = {
  "C08": dict(
    imports=["Carquet.Properties.C08.Rle", "Carquet.Properties.C08.Bitpack", "Carquet.Properties.C08.BitIO",
             "Carquet.Properties.C08.BufferReader", "Carquet.Properties.C08.CodecWrappers", "Carquet.Properties.C04.Thrift"],
    obligations=[
      "Carquet.Properties.C08.C08_rle_reads_in_input",
      "Carquet.Properties.C08.C08_rle_writes_le_count",
      "Carquet.Properties.C08.C08_rle_total",
      "Carquet.Properties.C08.C08_rle_levels_prefixed_rejects_bad_prefix",
      "Carquet.Properties.C08.C08_rle_wide_width_refused",
      "Carquet.Properties.C08.C08_regression_F80",
      "Carquet.Properties.C08.C08_bitunpack8_reads_in_input",
      "Carquet.Properties.C08.C08_bitunpack_reads_in_input",
      "Carquet.Properties.C08.C08_regression_F32",
      "Carquet.Properties.C08.C08_bitreader_reads_in_input",
      "Carquet.Properties.C08.C08_bitwriter_writes_le_capacity",
      "Carquet.Properties.C08.C08_regression_F81",
      "Carquet.Properties.C08.C08_regression_F82",
      "Carquet.Properties.C08.C08_bufreader_reads_in_input",
      "Carquet.Properties.C08.C08_bufreader_failed_read_keeps_pos",
      "Carquet.Properties.C08.C08_bufreader_pos_le_size",
      "Carquet.Properties.C08.C08_regression_F83",
      "Carquet.Properties.C08.C08_codec_wrappers_error_or_le_capacity",
      "Carquet.Properties.C08.C08_codec_wrappers_args_checked_first",
      # the Thrift parsers on arbitrary bytes: proved for C04, they are C08's statements about the Thrift layer as well
      "Carquet.Properties.C04.C04_thrift_file_metadata_safe",
      "Carquet.Properties.C04.C04_thrift_page_header_safe",
      "Carquet.Properties.C04.C04_thrift_skip_safe",
      "Carquet.Properties.C04.C04_thrift_skip_in_buffer",
      "Carquet.Properties.C04.C04_thrift_skip_stack_bound",
      "Carquet.Properties.C04.C04_thrift_skip_linear",
      "Carquet.Properties.C04.C04_thrift_parsers_linear",
      "Carquet.Properties.C04.C04_thrift_counts_bounded",
      "Carquet.Properties.C04.C04_thrift_list_alloc_bounded",
    ],
    components=["c8rle", "c8bits", "c8codec", "c8thrift", "thrift"],
    fidelity=_FID, rule=_RULE, assumptions=_ASSUME, trusted_base=_TRUST,
    text="(remaining decoders) RLE / bit-packed hybrid decoders (streaming, one-shot, levels, length-prefixed) on arbitrary "
         "bytes with any declared width and count: access-reporting twins proved equal to the decoders, every read inside the "
         "input, never more values than requested, fuels never binding, bad length prefixes refused after reading 4 bytes, "
         "widths above 32 refused without a read (F80: undefined shifts before); raw bit unpackers read exactly "
         "packed_size bytes (indices as data + independence of everything behind); bit reader / bit writer / buffer read "
         "cursor for every call history: indices below size, bytes stored within the capacity, failed reads leave the cursor "
         "(F81 bits lost above the 64-bit accumulator and shifts by >= 64, F82 negative bit count, F83 size_t wrap-around of "
         "the bounds test — all repaired); Thrift parser safety theorems registered; GZIP / ZSTD wrappers: error or size <= "
         "capacity under the library's capacity clause, argument checks before the library call; per-call allocation balance "
         "and UBSan-report predicates on all four decompressors and the other decoders",
    level_note="Lean kernel; harness (ASan/UBSan, exact-size buffers, live-heap counter, forked children); zlib/libzstd oracles",
    technique="Lean 4 proofs over access-reporting executable models (twins proved equal to the tied decoders) + differential "
              "correspondence on status class, values and bytes consumed",
  ),
  "C11": dict(
    imports=["Carquet.Properties.C11.BitIO"],
    obligations=["Carquet.Properties.C11.C11_bitio_roundtrip",
                 "Carquet.Properties.C11.C11_regression_F81",
                 "Carquet.Properties.C11.C11_delta_packbits_eq_bitpack"],
    components=["c8bits"],
    fidelity={"Impl.BitIO (carquet_bit_reader_* / carquet_bit_writer_*)": "exact"},
    rule="c8bits (bit IO part): write_bit / write_bits / write_bits64 histories with bit counts 0,1,3,7,8,9,20,24,25,31,32,33,40,"
         "55,56,63,64,65 and all-ones / random values into capacities exact, -1, +1, 0, half, generous; each history read back "
         "through the real reader (p_rt) and through the model reader",
    assumptions=["little-endian host", "bit counts are non-negative"], trusted_base=[],
    text="(bit IO part) any sequence of write_bit / write_bits / write_bits64 followed by flush, into a capacity of at least "
         "ceil(bits/8) bytes, is read back value by value by the matching reads (F81: the pinned writer lost the top bits of a "
         "value written above 32 pending bits); the delta model's own bit packer is proved equal to the loop-level model of "
         "carquet_bitpack_32 / carquet_bitunpack_32 for every width the delta code passes",
    level_note="Lean kernel; harness (ASan/UBSan)",
    technique="Lean 4 proof (writer and reader both refined to an abstract bit string) + differential correspondence",
  ),
  "C12": dict(
    imports=["Carquet.Properties.C12.BitIO"],
    obligations=["Carquet.Properties.C12.C12_bitio_matches_spec_bitpack"],
    components=["c8bits"],
    fidelity={"Impl.BitIO (carquet_bit_reader_* / carquet_bit_writer_*)": "exact"},
    rule="c8bits (bit IO part): uniform-width write_bits streams for every width 0..32 compared byte for byte with "
         "Spec.BitPack.pack in the driver",
    assumptions=["little-endian host"], trusted_base=[],
    text="(bit IO part) the bit writer's bytes are the Spec's raw LSB-first bit packing of the values (first cap bytes), and "
         "n reads of w bits return what the Spec unpacker reads",
    level_note="Lean kernel; harness",
    technique="Lean 4 proof against the independent Spec packing + correspondence",
  ),
}
