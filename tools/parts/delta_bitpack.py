"""Fidelity override for the delta part (sorts after delta.py; props.py merges fidelity dicts with update()):
Impl.Delta.packBits / unpackBits are proved equal to the loop-level model of carquet_bitpack_32 / carquet_bitunpack_32
(C11_delta_packbits_eq_bitpack, delivered by the c08more component)."""
_F = {"Impl.Delta.packBits/unpackBits (carquet_bitpack_32/bitunpack_32 as called with 32 values)":
      "exact (proved equal to Impl.Bitpack.pack / unpack for every width <= 32: C11_delta_packbits_eq_bitpack)"}
PART = {"C08": dict(fidelity=_F), "C11": dict(fidelity=_F), "C12": dict(fidelity=_F)}
