PART = {
  "C04": dict(
    imports=["Carquet.Properties.C17.Schema", "Carquet.Properties.C08.Lz4", "Carquet.Properties.C08.Snappy",
             "Carquet.Properties.C08.Plain", "Carquet.Properties.C08.Delta"],
    obligations=["Carquet.Properties.C17.C17_traversal_linear",
                 "Carquet.Properties.C08.C08_lz4_decompress_in_bounds",
                 "Carquet.Properties.C08.C08_snappy_decompress_in_bounds",
                 "Carquet.Properties.C08.C08_plain_reads_in_input",
                 "Carquet.Properties.C08.C08_plain_byte_array_slices_in_input"],
    components=["c04"],
    shards={"c04": 14},
    timeout=9000,
    fidelity={"reader bounds arithmetic (open paths, page loads)": "Impl.Reader with access reporting (reader part)"},
    rule="c04: 6 (thorough 40) base files over 5 codecs; per base 60 (400) structure-aware mutations: footer fields through "
         "carquet's own thrift structs (counts, offsets, sizes, types, codecs, child counts, repetition), page-header fields "
         "(type, sizes, crc, num_values, encoding) re-serialised in place, payload flips, truncation, garbage, random bytes; "
         "each mutated file x {fread, mmap, buffer} is exercised in a forked child by a fixed API sequence (metadata queries, "
         "out-of-range indices, read_batch sizes 0/1/3/7/1000, skip, has_next/remaining, batch reader) with exact-size caller "
         "buffers sized from the public schema accessors, 10 s CPU-time alarm, ASan + LeakSanitizer at exit. distinct = distinct (mutation, mode)",
    assumptions=["heap discipline (double free, leak) and real stack use are observed by sanitizers, not proved"],
    trusted_base=["ASan/LSan verdict of the forked child; 10 s CPU-time timer (ITIMER_PROF) as hang detector"],
    text="(partial) proved: schema traversal does at most 2*num_elements steps for ANY element list (the statement that was "
         "false before fix fdbc062), decompressors and PLAIN decoders never read outside their input / write outside the "
         "declared capacity (fail-stop models). Explored on the real code: structure-aware mutations of valid files in all "
         "three I/O modes under ASan/LSan with hang detection. The access-reporting model of the open paths and page loads "
         "(C04_accesses_in_bounds, C04_steps_linear) is the reader part.",
    level_note="Lean kernel for the modelled parts; sanitizers for heap discipline",
    technique="Lean 4 proofs of bounds/termination on component models + structure-aware mutation under sanitizers (fault exploration inside the tie)",
  ),
}
