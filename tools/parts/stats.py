PART = {
  "C16": dict(
    text="for the code after fixes F18a-e/F19a-c: for every physical type and every history of calls, the statistics "
         "builder's emitted min/max/null_count and the page writer's page-header statistics are true bounds in the "
         "type's statistics order (signed ints by two's complement, IEEE floats from sign/exponent/mantissa with -0=+0 "
         "and NaN above everything, INT96 as 96-bit unsigned, bytes unsigned lexicographic) and emitted bounds are "
         "attained; row_group_matches never prunes a row group that has a matching row when its statistics are true "
         "bounds (six operators, all types, NaN probes and bounds, wrong-size bounds), absent statistics and errors "
         "mean might-match, filter_row_groups returns exactly the capped ascending list; statistics_compare, "
         "range_overlaps and page_might_match have no false negatives. Eight defects of the pinned code are kept as "
         "kernel-checked counterexamples and replayed on the real code. Not covered: header bytes of page statistics are "
         "checked through the model of finalize, not parsed back; files of writers that omit NaN from min/max.",
    level_note="Lean kernel; translator (status codes, operator enum, buffer sizes); harness with native C comparisons as oracle",
    technique="Lean 4 proof over executable models of the statistics code (fold invariants, decision-table case split) + differential correspondence to the C code",
    imports=["Carquet.Properties.C16.Stats"],
    obligations=[
      "Carquet.Properties.C16.C16_constants",
      "Carquet.Properties.C16.C16_builder_bounds",
      "Carquet.Properties.C16.C16_page_stats_bounds",
      "Carquet.Properties.C16.C16_prune_sound",
      "Carquet.Properties.C16.C16_absent_stats_match",
      "Carquet.Properties.C16.C16_groupPred_iff",
      "Carquet.Properties.C16.C16_filter_exact",
      "Carquet.Properties.C16.C16_filter_ascending",
      "Carquet.Properties.C16.C16_helpers_sound",
      "Carquet.Properties.C16.C16_regression_F18a",
      "Carquet.Properties.C16.C16_regression_F18b",
      "Carquet.Properties.C16.C16_regression_F18c",
      "Carquet.Properties.C16.C16_regression_F18d",
      "Carquet.Properties.C16.C16_regression_F18e",
      "Carquet.Properties.C16.C16_regression_F19a",
      "Carquet.Properties.C16.C16_regression_F19b",
      "Carquet.Properties.C16.C16_regression_F19c",
    ],
    components=["stats"],
    fidelity={"Impl.Stats": "exact"},
    rule="stats: fcmp = all pairs of 20 special float / double bit patterns (NaNs of both kinds and signs, +-0, +-inf, "
         "denormals, extremes) + random bits against the host's < > == isnan; sb = statistics builder, every physical "
         "type, random histories of add_nulls / add_values / add_byte_arrays (values from small pools rich in NaN, +-0, "
         "signed extremes; byte arrays of length 0..300; FLBA lengths 1..256 and, in a child process, 257..300, 0, -1; "
         "refused calls: n <= 0, wrong API for the type) + directed cases (NaN first / middle / last, +-0, infinities, "
         "denormals, 'b' with 300 x 'a', 256/257 boundary); pw = page writer add_values with and without definition "
         "levels, all types; scmp / sovl / pmm = statistics_compare, range_overlaps, page_might_match on rows with true "
         "(exact, loosened or one-sided) bounds and probes at, between and beyond the bounds; rgm = files written by the "
         "real writer (1-4 row groups) whose footer gets chunk statistics through carquet's own thrift structs (new "
         "fields, deprecated fields, incomplete new + deprecated, one-sided, wrong-size, none), then column_statistics, "
         "row_group_matches for the given operator and probe (incl. out-of-range row group / column) and "
         "filter_row_groups with max_indices in -1..5; C-side ground truth by brute force with native comparisons; "
         "distinct = distinct (op, inputs)",
    assumptions=[
      "little-endian host (values are read by pointer casts / memcpy)",
      "callers hand the builder / page writer buffers as long as the API contract says (value_size x num_values bytes, "
      "num_non_null dense values, one definition level per row); the reader API gets value_size = length of the probe",
      "allocation inside carquet_statistics_build / column_index_add_page succeeds (C19 covers failure)",
      "the statistics order of FLOAT/DOUBLE is the one of carquet's statistics builder: IEEE order, -0 = +0, all NaNs "
      "equal and above every other value; a NaN row therefore forces a NaN max",
      "INT96 files for the reader ops are written as FLBA(12) and retyped in the footer (the page writer refuses INT96)",
    ],
    trusted_base=["native C comparison operators of the host as C-side oracle for the float order"],
  ),
}
