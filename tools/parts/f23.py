_TEXT05 = ("uncompressed sizes (component f23, finding F23 repaired): ColumnMetaData.total_uncompressed_size is, as parquet.thrift "
           "defines it, the sum over the chunk's pages of page header + uncompressed page body, and RowGroup.total_byte_size the sum "
           "of the chunks' total_uncompressed_size. The pinned writer recorded the uncompressed BODIES only and the COMPRESSED chunk "
           "sizes (and counted a finalisation retried after a failed write twice); because every carquet file had this, the independent "
           "reader ignored the two fields. Now: (1) the writer model mirrors the repaired code (flushPage: total_uncompressed_size += "
           "(page_size - compressed_size) + uncompressed_size; flushRowGroup: total_byte_size = sum of the chunks' total_uncompressed_size, "
           "reset at every finalisation - the `carry` component of the writer-on-a-failing-stream model is gone), tie: whole files byte for "
           "byte; proved for every schema, option set and history, generic in the byte-level components: C05_uncompressed_sizes_match "
           "(close OK => every chunk's total_uncompressed_size = sum over its pages of |header| + |uncompressed body|, the headers being "
           "the bytes in front of each stored body, and every row group's total_byte_size = sum of its chunks' total_uncompressed_size; "
           "C05_pages_chain / C05_chunks_tile restated accordingly: ChunkPages.totalUncompressed = sumUsize, GroupsAt.totalByteSize = "
           "chunksUncompressed). (2) the independent reader Spec.File.read CHECKS both fields (Spec.File.chunkUsize walks the chunk's "
           "page headers after the chunk has been accepted; reasons chunkUncompressedSizeMismatch, rowGroupByteSizeMismatch): "
           "C05_reader_checks_chunk_uncompressed_size and C05_reader_checks_row_group_byte_size say that a chunk / row group is accepted "
           "ONLY with these values; C05_spec_reader_accepts_writer (carquet's writer model) and C06_reference_selfconsistent (reference "
           "writer, whose RowGroup.total_byte_size was corrected from the compressed to the uncompressed sum) are proved for the "
           "strengthened reader, so `uncompressed sizes that match` is now among what the reader verifies on every file the real writer "
           "produces (op wrspec). (3) C05_regression_F23: the pinned code (Impl/WriterPreFixF23.lean) on two kernel-checked witnesses - "
           "all calls OK, footer total_uncompressed_size 8 against 46 bytes of header + body and the file rejected "
           "(chunkUncompressedSizeMismatch); SNAPPY: total_uncompressed_size 64 and total_byte_size 49 against 104.")
PART = {
  "C05": dict(
    imports=["Carquet.Properties.C05.F23"],
    obligations=["Carquet.Properties.C05.C05_uncompressed_sizes_match",
                 "Carquet.Properties.C05.C05_reader_checks_chunk_uncompressed_size",
                 "Carquet.Properties.C05.C05_reader_checks_row_group_byte_size",
                 "Carquet.Properties.C05.C05_regression_F23"],
    components=[],
    fidelity={"Impl.Writer (total_uncompressed_size, total_byte_size)": "exact after fix F23 (pre-fix functions kept in "
              "Impl/WriterPreFixF23.lean); tie: whole files byte for byte (op wr), sink bytes (op sink)"},
    rule="corpus/C05/fixed-F23-uncompressed-sizes.ops (replayed first on every run): the two witness histories as wrspec and wr lines; "
         "on the tree before the fix they are reported as PROPFAIL spec_reader_accepts:chunkUncompressedSizeMismatch and DIVERGE",
    assumptions=[],
    text=_TEXT05,
  ),
}
