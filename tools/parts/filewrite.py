_TEXT_WR = ("writer part: the control of carquet's writer pipeline (page builder, page cut rule, chunk layout, offsets and "
            "sizes in the metadata, stream writes, status flow) is modelled exactly and instantiated with the component "
            "models (PLAIN, RLE levels, Snappy, LZ4, CRC-32, Thrift page header and footer, page statistics): for every "
            "generated write history the model's file equals the real file BYTE FOR BYTE (codecs UNCOMPRESSED, SNAPPY, LZ4, "
            "LZ4_RAW; GZIP and ZSTD with the library-produced page bodies as oracle) and all call statuses agree; proved for every history: a close that returns OK has produced "
            "PAR1 ++ data ++ footer ++ len ++ PAR1, and the row groups / column chunks of the footer describe consecutive, gap-free, "
            "non-overlapping byte ranges from offset 4 to the start of the footer with sizes that add up (C05_chunks_tile); the data region is, chunk by chunk, a "
            "concatenation of non-empty pages header(|body|, |stored|, crc32(stored), rows, stats) ++ stored with stored = compress(body), and each chunk's "
            "num_values / total_compressed_size (headers + stored bodies) / total_uncompressed_size (headers + uncompressed bodies, after fix F23) are the sums over its pages, and each row group's total_byte_size is the sum of its chunks' total_uncompressed_size (C05_pages_chain); when every call returned OK the page contents, concatenated chunk by chunk, are exactly the table "
            "the history denotes (tableOf, defined from the batches alone) and every page body is rep levels ++ def levels ++ PLAIN values of its content (C05_written_table). Read-back equality (C01), three-mode agreement (C03) and "
            "write-twice determinism (C05) are evaluated on the real code for every generated history.")
PART = {
  "C05": dict(
    imports=["Carquet.Properties.C05.Writer"],
    obligations=["Carquet.Properties.C05.C05_envelope", "Carquet.Properties.C05.C05_envelope_real", "Carquet.Properties.C05.C05_chunks_tile", "Carquet.Properties.C05.C05_pages_chain", "Carquet.Properties.C05.C05_written_table"],
    components=["twice", "file", "c05sink"],
    fidelity={"Impl.Writer": "exact (control), byte-exact whole files through Impl.FileReal for codecs 0/1/5/7",
              "GZIP/ZSTD pages": "whole files byte-for-byte with the page bodies compressed by zlib / libzstd called directly by the harness (levels 6 / 3, gzip wrapper, memLevel 8) as the model's compression oracle"},
    rule="file: random flat schemas (1..4 columns over the 7 writable types, REQUIRED/OPTIONAL/REPEATED; a REPEATED column holds "
         "lists of 0..12 elements per row, written with definition levels 0 = empty list / 1 = element and repetition levels "
         "both supplied and NULL, batches ending at row boundaries and inside lists), contents with extreme "
         "ints, NaN/-0.0 patterns, empty and long strings, all-null / no-null / run-structured null patterns, zero rows; "
         "6 codec tags; page_size 1 B .. 1 MiB; 0..3 row groups; every column's rows split into 1..4 write_batch calls "
         "(also empty ones, NULL def_levels); each file written twice, read back through fread, mmap and buffer. "
         "distinct = distinct histories. twice: in a fresh process, per codec one INT64 column of 16 000 .. 60 000 values (ramp / low-entropy / random; pages above 64 KiB) written twice in a row, first with every codec in its virgin state, then after a different table; the two files must be byte-identical. c05sink: 6 (thorough 40) histories on fopencookie sinks with one transiently failing or "
         "permanently failing operation in 3 buffering modes, the caller carrying on: OK from close => the sink holds exactly the fault-free file; every line is also run through the writer-on-a-failing-stream model (Impl.WriterSink): statuses, bytes sunk and every sink operation must agree",
    assumptions=["fwrite/fread are identity on bytes", "GZIP (level 6) and ZSTD (level 3) payloads by library contract"],
    trusted_base=[],
    text=_TEXT_WR,
    level_note="Lean kernel; harness; models of the components tied separately (C09-C14)",
    technique="Lean 4 proof over an exact control model of the writer, generic in its byte-level components; byte-for-byte differential tie of whole files",
  ),
  "C13": dict(
    imports=["Carquet.Properties.C13.Written"],
    obligations=["Carquet.Properties.C13.C13_written_pageheader_is_standard",
                 "Carquet.Properties.C13.C13_written_pageheader_roundtrip",
                 "Carquet.Properties.C13.C13_written_footer_roundtrip"],
    components=["file"],
    fidelity={"Impl.FileReal.pageHeader (inline header writer of page_writer.c)": "exact (whole files byte-equal)"},
    rule="file: see C05 (the page headers and footers of every generated file are compared byte for byte with the model)",
  ),
}
