_RULE_C = ("snappyc: carquet_snappy_compress on exact-size buffers — every length 0..80 x 8 fill kinds (random, zeros, "
           "0xff, short period, ramp, text, random with planted repeats at distances 1..70000, two-symbol), boundary "
           "lengths 255..258/2047..2049/4096/65535..65552/70000, inputs of 66..132 KB whose repeats alias in the uint16 "
           "table (thorough: up to 204800 bytes in every kind, 1 MiB of zeros), random lengths; capacity = bound, "
           "bound-1, n/2, 0..3, bound+k; every success is decompressed by the real decompressor into exactly len(x) "
           "bytes (p_rt). distinct = distinct (input bytes, capacity)")
_RULE_D = ("snappyd: carquet_snappy_decompress on exact-size src/dst — carquet's own output (cap = n, n+k, n-1); "
           "streams built by a C transcription of the grammar using every tag form (literal length in tag / 1..4 "
           "length bytes incl. non-minimal, copy-1/2/4, overlapping copies, offset = everything so far, offsets > 64 KiB, "
           "padded preambles); one directed case per guard of the decompressor (F25/F25b/F6 witnesses among them); "
           "exhaustive [d,t] and [d,00,41,t,b]; 8 mutation kinds of valid streams (bit flip, byte set, truncate, append "
           "garbage, delete, insert, preamble +-1, append a valid element); every prefix of small valid streams; raw "
           "bytes with and without a plausible preamble; capacity = declared length or the original length. "
           "distinct = distinct (stream bytes, capacity)")
_ASSUME = ["64-bit size_t/pointers (no wrap in ip+len, op+len for buffers that exist)", "little-endian host (snappy_read32 by memcpy)",
           "Snappy: inputs shorter than 2^32 bytes (the format's limit; the compressor truncates src_size to 32 bits without "
           "refusing — see C09_snappy_needs_32bit)",
           "Snappy theorems are about the decompressor with fixes/F6, F25, F25b applied; the pinned decompressor is kept as "
           "decompressPreFix with kernel-checked counterexamples"]
PART = {
  "C09": dict(
    imports=["Carquet.Properties.C09.Snappy"],
    obligations=["Carquet.Properties.C09.C09_snappy_constants",
                 "Carquet.Properties.C09.C09_snappy_copies_valid",
                 "Carquet.Properties.C09.C09_snappy_roundtrip",
                 "Carquet.Properties.C09.C09_snappy_le_bound",
                 "Carquet.Properties.C09.C09_snappy_fits_bound",
                 "Carquet.Properties.C09.C09_snappy_small_dst_refused",
                 "Carquet.Properties.C09.C09_snappy_needs_32bit"],
    components=["snappyc"],
    fidelity={"Impl.Snappy": "exact"},
    rule=_RULE_C,
    assumptions=_ASSUME,
    trusted_base=["translate/gen_snappy.py (Snappy #defines, hash multiplier, bound formula, thresholds)"],
  ),
  "C10": dict(
    imports=["Carquet.Properties.C10.Snappy"],
    obligations=["Carquet.Properties.C10.C10_snappy_tag_kinds",
                 "Carquet.Properties.C10.C10_snappy_output_in_grammar",
                 "Carquet.Properties.C10.C10_snappy_output_valid",
                 "Carquet.Properties.C10.C10_snappy_accepts_valid",
                 "Carquet.Properties.C10.C10_snappy_accepts_reference_encoder",
                 "Carquet.Properties.C10.C10_snappy_accepts_only_valid",
                 "Carquet.Properties.C10.C10_snappy_rejects_invalid",
                 "Carquet.Properties.C10.C10_regression_F25",
                 "Carquet.Properties.C10.C10_regression_F25b"],
    components=["snappyc", "snappyd"],
    fidelity={"Impl.Snappy": "exact", "Spec.Snappy": "written from format_description.txt"},
    rule=_RULE_C + " || " + _RULE_D,
    assumptions=_ASSUME,
    trusted_base=["my reading of google/snappy format_description.txt in Spec/Snappy.lean (cross-checked against the C "
                  "grammar generator in harness/ops_snappy.c on every run: generator_is_spec_valid)"],
  ),
  "C08": dict(
    imports=["Carquet.Properties.C08.Snappy"],
    obligations=["Carquet.Properties.C08.C08_snappy_decompress_in_bounds",
                 "Carquet.Properties.C08.C08_regression_F6"],
    components=["snappyd"],
    fidelity={"Impl.Snappy": "exact"},
    rule=_RULE_D,
    assumptions=_ASSUME,
    trusted_base=["ASan/UBSan on exact-size heap buffers as the observer of real out-of-bounds accesses"],
  ),
}

# what the check delivers, in the component builder's words
PART['C09'].update(
    text='Snappy part: for every input shorter than 2^32 bytes the model of carquet_snappy_compress followed by the (repaired) model of carquet_snappy_decompress into exactly len(x) bytes returns x; the compressed length is <= 32+n+n/6 for every input; a destination below the bound is refused before any write. Proved for all inputs via a hash-table-independent invariant (every emitted copy repeats bytes already present). Models tied to the C code byte-for-byte by differential execution (incl. > 64 KiB inputs where 16-bit table entries alias). LZ4 / gzip / zstd parts: other components.',
    level_note='Lean kernel (+leanchecker in thorough); translate/gen_snappy.py; harness under ASan/UBSan; the real decompressor as C-side round-trip oracle',
    technique='Lean 4 proof over an exact executable model (match finder factored into ops + serialiser), correspondence to C by differential execution on boundary-directed and random inputs')
PART['C10'].update(
    text="Snappy part: every stream the compressor model produces is in the raw-Snappy grammar and is decoded to the input by an independent Spec decoder; the repaired decompressor model accepts exactly the grammar (every tag kind, copy-4, 1..4-byte literal lengths, overlapping copies) and rejects everything the Spec decoder rejects (trailing input, bad offsets, truncated elements, length mismatch, preamble >= 2^32). Pinned code fails the 'rejects' half (F25, F25b; kernel-checked witnesses, replayed on the real code); fixes in fixes/. LZ4 part: other component.",
    level_note='Lean kernel; Spec written from format_description.txt and cross-checked on every run against a C transcription of the grammar; harness under ASan/UBSan',
    technique='Lean 4 proof relating an exact model of the C decompressor to an inductive grammar and an executable Spec decoder; correspondence by differential execution on grammar-generated, mutated, truncated and raw streams')
PART['C08'].update(
    text='Snappy decompressor: model in access-reporting form (every load/store checked against src_size / dst_capacity, loop on fuel); proved for arbitrary bytes and capacities that the repaired code never reaches an out-of-bounds access or fuel exhaustion and reports <= dst_capacity bytes. Pinned code over-reads after a COPY_1 tag at end of input (F6; kernel-checked witness, ASan abort on the real code); fix in fixes/. Other decoders: other components.',
    level_note='Lean kernel; harness with exact-size heap buffers under ASan/UBSan as the observer of real accesses',
    technique='Lean 4 proof over an access-reporting model; differential execution with exact-size buffers')
