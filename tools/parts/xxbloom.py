PART = {
  "C20": dict(
    imports=["Carquet.Properties.C20.Bloom"],
    obligations=[
      "Carquet.Properties.C20.C20_constants_match_spec",
      "Carquet.Properties.C20.C20_xxh64_impl_eq_spec",
      "Carquet.Properties.C20.C20_hash_is_xxh64_of_plain",
      "Carquet.Properties.C20.C20_size_rounded",
      "Carquet.Properties.C20.C20_fresh_rejects_all",
      "Carquet.Properties.C20.C20_no_false_negative",
      "Carquet.Properties.C20.C20_no_false_negative_values",
      "Carquet.Properties.C20.C20_survives_reload",
      "Carquet.Properties.C20.C20_merge_is_union",
      "Carquet.Properties.C20.C20_bits_match_spec",
      "Carquet.Properties.C20.C20_filter_bytes_match_spec",
      "Carquet.Properties.C20.C20_regression_F14",
      "Carquet.Properties.C20.C20_regression_F30",
    ],
    components=["bloom"],
    fidelity={"Impl.Xxh64": "exact", "Impl.Bloom": "exact"},
    rule="bloom: carquet_xxhash64 on every length 0..300 (thorough 0..1100) x 5 seeds x misalignment, exact-size "
         "buffers; create on every size 0..130, block boundaries, SIZE_MAX-34..SIZE_MAX; read on every length 0..130; "
         "700 (thorough 6000) filter histories (size, typed inserts i32/i64/float/double/bytes/raw hash, probes, "
         "write, reload) and 300 (2500) merges, final filter bytes compared; distinct = distinct (op, inputs); "
         "histories without inserts and NULL-argument calls are trivial",
    assumptions=[
      "little-endian host: the filter words are accessed through a uint32_t* cast of the byte array and typed "
      "values are hashed through their object representation; on this host both coincide with the little-endian "
      "layout the format prescribes (a big-endian build is not modelled)",
      "filters of at most 2^32 blocks (128 GiB) for the block-index equality with the format (the format's "
      "BloomFilterHeader.numBytes is an i32, so larger filters are not representable anyway)",
      "allocation failure in create/from_data is not modelled; carquet_bloom_filter_create_with_ndv's floating-point "
      "size formula is not modelled (its result is passed to create, which is)",
      "the thrift BloomFilterHeader is not written or read by carquet's bloom-filter functions; only the bitset is covered",
    ],
    trusted_base=["libxxhash 0.8.1 (system header, XXH_INLINE_ALL) as C-side oracle for XXH64",
                  "my transcription of parquet-format BloomFilter.md and of the xxHash specification (doc/xxhash_spec.md) "
                  "in Spec/Sbbf.lean, Spec/Xxh64.lean; the latter checked against the xxhsum sanity vectors"],
  ),
}

# what the check delivers, in the component builder's words

# what the check delivers, in the component builder's words
PART['C20'].update(
    text='XXH64 model proved equal to the xxHash specification for every input and seed; the Bloom-filter model (create/insert/check/write/read/merge, typed inserts) proved to have no false negatives for every size and insert history, also after write+read and after merge (word-wise OR, contains the union), fresh filters reject everything, sizes are whole 32-byte blocks >= request, and filter bytes equal the little-endian serialisation of the Parquet split-block filter with XXH64(seed 0) of the PLAIN encoding; model tied to carquet_xxhash64 / carquet_bloom_filter_* by differential execution incl. final filter bytes. Holds for the tree with fix F14 (block index multiply-shift) and F30 (create size wrap); kernel-checked counterexamples for the pre-fix code are kept.',
    level_note='Lean kernel; translator (SALT, primes, block size); harness; libxxhash as second oracle',
    technique='Lean 4 proof over executable byte-level model + Spec (xxHash spec, parquet BloomFilter.md), correspondence to C by differential execution')
