PART = {
  "C01": dict(
    imports=["Carquet.Properties.C05.Writer", "Carquet.Properties.C11.Rle", "Carquet.Properties.C11.Plain",
             "Carquet.Properties.C09.Snappy", "Carquet.Properties.C09.Lz4", "Carquet.Properties.C02.Cursor"],
    obligations=["Carquet.Properties.C05.C05_envelope",
                 "Carquet.Properties.C11.C11_rle_levels_roundtrip",
                 "Carquet.Properties.C11.C11_plain_boolean_roundtrip",
                 "Carquet.Properties.C11.C11_plain_int32_roundtrip",
                 "Carquet.Properties.C11.C11_plain_int64_roundtrip",
                 "Carquet.Properties.C11.C11_plain_byte_array_roundtrip",
                 "Carquet.Properties.C11.C11_plain_fixed_len_byte_array_roundtrip",
                 "Carquet.Properties.C09.C09_snappy_roundtrip",
                 "Carquet.Properties.C09.C09_lz4_roundtrip",
                 "Carquet.Properties.C02.C02_column_refines_cursor",
                 "Carquet.Properties.C02.C02_returned_buffers_alive"],
    components=["file"],
    fidelity={"Impl.Writer + Impl.FileReal": "exact (whole files byte-for-byte, codecs 0/1/5/7)",
              "reader from bytes to decoded pages": "Impl.Reader (reader part): exact for the open paths and page loaders, tied value-exact on every generated file"},
    rule="file: see C05 (same generator): for every generated history the real reader's output (three I/O modes) must "
         "equal the written table: row groups, rows, null positions, bit-identical values; byte-array pointers are "
         "dereferenced by instrumented code right after the call",
    assumptions=["file-level composition readAll (fileOf history) = table: see the compose part; page / chunk level and the "
                 "writer half (C05_written_table) are theorems"],
    trusted_base=[],
    text="layer theorems of the round trip are proved for all inputs: levels (RLE hybrid with length prefix), "
         "PLAIN for every writable type, Snappy/LZ4, the file envelope, consumption-pattern independence of the column "
         "reader over decoded pages and liveness of returned byte-array buffers; the writer's control is modelled exactly "
         "and produces the real files byte for byte. The reader model from bytes to pages with its page / chunk level "
         "round-trip theorems is the reader part; the writer half (page contents = the table the history denotes) is "
         "C05_written_table. On the real code every generated write history (all partitions into batches, all "
         "null patterns, 6 codec tags, page sizes from 1 byte) is written, re-opened in three modes and compared.",
    level_note="Lean kernel; harness",
    technique="Lean 4 layer proofs + byte-exact writer model + differential round trip on the real code",
  ),
}
