_TEXT05 = ("REPEATED columns end to end (component rep2): the generator shared by the file-level checks (harness/filecase.h) "
           "writes flat REPEATED columns - per row a list of 0..12 elements, an empty list one entry with definition level 0, "
           "an element one entry with definition level 1, repetition level 0 for the first entry of a row and 1 for the others; "
           "rep_levels supplied or NULL (every entry a row), def_levels supplied or NULL (no empty list), batches that end at a "
           "row boundary or inside a list, arbitrary rep_levels handed to non-repeated columns (ignored by the writer). "
           "Impl.Writer.Batch carries `reps : Option (List Nat)`; addValues / pageBody mirror carquet_page_writer_add_values / "
           "finalize for max_rep_level 1 (raw int16 level buffers, one RLE block per page, NULL pointer = zeros); "
           "writeBatch counts the rows of column 0 as carquet_writer_write_batch does after fix F64 (entries with repetition "
           "level 0 when the column is REPEATED and rep_levels is non-NULL). Byte-for-byte tie of whole files and the independent "
           "reader's verdict on every generated history. Theorems: the hypothesis ColOk.notRepeated is gone from "
           "C05_spec_reader_accepts_writer (the independent reader accepts files with flat REPEATED columns and returns the "
           "table with the history's repetition levels; well-formedness of a history = HistOk: level arrays as long as the "
           "count, levels 0/1, as many values as entries with definition level 1, every column of a row group the same number "
           "of rows counting entries with repetition level 0, first repetition level of a row group 0 - all decidable) and from "
           "C01_roundtrip and its stages (PageShape / readDataPageV1_pageBody for max_rep_level 1). Defect found by the new "
           "generator, repaired and kept as regression: F64 (C05_regression_F64).")
PART = {
  "C05": dict(
    imports=["Carquet.Properties.C05.SpecWriter"],
    obligations=["Carquet.Properties.C05.C05_regression_F64"],
    components=[],
    fidelity={"Impl.Writer (REPEATED columns)": "exact: Batch.reps, level buffers of add_values, estimated_size / page-cut rule with "
              "repetition levels, rows of column 0 after F64 (pre-fix writeBatchPreFixF64 kept)"},
    rule="",
    assumptions=["a row group of a REPEATED column starts with repetition level 0 and all columns of a row group hold the same "
                 "number of rows (entries with repetition level 0 for a REPEATED column): caller preconditions (HistOk.firstRep, "
                 "HistOk.aligned), decidable from the history; the generator emits only such histories"],
    text=_TEXT05,
  ),
  "C01": dict(
    imports=["Carquet.Properties.C01.Roundtrip"],
    obligations=[],
    components=[],
    rule="",
    text="REPEATED columns (component rep2): C01_roundtrip and every stage theorem hold for flat REPEATED columns as well "
         "(ColOk no longer excludes them): the reader model returns, per entry, the definition level and the dense values; "
         "num_rows = rows (entries with repetition level 0 of the first column); the repetition levels come back through the "
         "page loads (C01_page_body_roundtrip, decodedOf) and, for every read/skip history, through C01_roundtrip_any_consumption "
         "(tableRows carries the history's repetition levels). Run-time tie: REPEATED columns are read with a rep_levels array "
         "(fourth field of r<g>_<c>), compared with the model reader in three modes and with the intended table; num_rows is "
         "part of the C-side predicate p_roundtrip and of readback_is_intended_table.",
  ),
}
