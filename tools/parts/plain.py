_P = "Carquet.Properties."
_RULE_PLAIN = ("plain: every type x every length 0..70 (thorough ..200; booleans also 71..1025 around multiples "
               "of 8) x value mixes (extremes, inf, quiet/signalling/negative NaN payloads, -0.0, denormals, "
               "empty byte arrays); decoder inputs = harness spec-encoder streams (checked against Carquet.Spec by "
               "the driver) exact / with trailing bytes / padding bits set / one byte short / one value short / "
               "every cut position (small) / corrupted BYTE_ARRAY length prefixes (negative, overrun by one) / raw "
               "bytes with counts -1..; size_t-wrapping counts; BSS K in {1,2,3,4,5,7,8,12,16} + float + double, "
               "capacities exact/-1/+n, negative counts; all buffers exact-size; typed functions and the "
               "carquet_decode_plain switch.  distinct = distinct (op, inputs); count=0 lines are trivial")
_RULE_DICT = ("dict: builder histories through the static dict_builder_* (sizes 1/4/8/12/variable; alphabets "
              "1..9 with runs; >1024 distinct; >1024 values; one-bucket collision sets; empty strings and prefixes), "
              "public encoders for 5 types (F1 region of the RLE encoder tagged f1=1: round trip reported as "
              "information only), public decoders on harness-built hybrid streams (bit-packed / RLE / mixed) at "
              "widths 0..32 with in-range, boundary and out-of-range indices < 2^31, bad declared counts/sizes")
_RULE_IDX = "dictidx: indices >= 2^31 at width 32 (defect F7) in RLE and bit-packed runs, all four typed decoders"
_ASSUME = ["little-endian host (memcpy fast paths of plain.c; CARQUET_STRICT_ALIGN undefined)",
           "count * size < 2^64 (the caller's array exists); INT96 decode reads out of bounds when the product wraps "
           "(C08_plain_int96_wrap_witness) - unreachable with a real output buffer",
           "allocation failure of the output carquet_buffer_t not modelled (C19)",
           "byte-array values shorter than 2^31 bytes (int32_t length field)"]
_TRUST = ["harness-side spec encoders (PLAIN, BSS, RLE/bit-packed hybrid) in ops_plain.c: their PLAIN/BSS output is "
          "re-checked against Carquet.Spec by the driver on every line; the hybrid stream only through carquet's decoder",
          "dictionary.c static builder reached by #include of the working-tree source with renamed public symbols"]

PART = {
  "C11": dict(
    imports=[_P + "C11.Plain"],
    obligations=[_P + "C11." + n for n in [
        "C11_plain_boolean_roundtrip", "C11_regression_F43_bool_zero", "C11_plain_int32_roundtrip", "C11_plain_int64_roundtrip",
        "C11_plain_int96_roundtrip", "C11_plain_float_roundtrip", "C11_plain_double_roundtrip",
        "C11_plain_byte_array_roundtrip", "C11_plain_fixed_len_byte_array_roundtrip",
        "C11_bss_roundtrip", "C11_bss_float_roundtrip", "C11_bss_double_roundtrip",
        "C11_dictionary_builder", "C11_dictionary_bit_width",
        "C11_dictionary_roundtrip_32", "C11_dictionary_roundtrip_64"]],
    components=["plain", "dict"],
    fidelity={"Impl.Plain": "exact", "Impl.Bss": "exact (scalar kernels; SIMD kernels tied by observation only)",
              "Impl.Dictionary": "exact for the builder and the decoders; RLE hybrid codec is a parameter"},
    rule=_RULE_PLAIN + " || " + _RULE_DICT,
    assumptions=_ASSUME + ["dictionary round trip is stated for any index codec with "
                           "idxDec w (idxEnc w idxs) |idxs| = idxs on indices < 2^w, 1 <= w <= 32 (RLE hybrid: separate component)"],
    trusted_base=_TRUST,
  ),
  "C12": dict(
    imports=[_P + "C12.Plain"],
    obligations=[_P + "C12." + n for n in [
        "C12_plain_impl_eq_spec", "C12_plain_impl_to_spec", "C12_plain_spec_to_impl",
        "C12_plain_boolean_decoder_eq_spec", "C12_plain_byte_array_decoder_eq_spec",
        "C12_plain_fixed_decoder_eq_spec", "C12_plain_int96_decoder_eq_spec", "C12_plain_int96_words_determined",
        "C12_plain_flba_decoder_eq_spec",
        "C12_bss_impl_eq_spec", "C12_bss_impl_to_spec", "C12_bss_spec_to_impl", "C12_bss_decoder_eq_spec",
        "C12_dictionary_page_is_plain"]],
    components=["plain", "dict"],
    fidelity={"Impl.Plain": "exact", "Impl.Bss": "exact (scalar kernels)", "Impl.Dictionary": "exact (builder)"},
    rule=_RULE_PLAIN + " || " + _RULE_DICT,
    assumptions=_ASSUME,
    trusted_base=_TRUST + ["my reading of the Parquet Encodings document for PLAIN / BYTE_STREAM_SPLIT / dictionary pages "
                           "(Spec/Plain.lean, Spec/Bss.lean, Spec/Dictionary.lean; examples from the document as tests)"],
  ),
  "C08": dict(
    imports=[_P + "C08.Plain"],
    obligations=[_P + "C08." + n for n in [
        "C08_plain_reads_in_input", "C08_plain_rejects_short_input", "C08_plain_rejects_negative_count",
        "C08_plain_byte_array_slices_in_input", "C08_plain_byte_array_rejects_bad_length",
        "C08_bss_reads_in_input", "C08_bss_rejects_short_input",
        "C08_regression_F7", "C08_dict_index_in_range", "C08_dict_rejects_out_of_range"]],
    components=["plain", "dict", "dictidx"],
    fidelity={"Impl.Plain": "exact", "Impl.Bss": "exact (scalar kernels)",
              "Impl.Dictionary": "decoders: repaired code (fix F7); pinned code kept as decodeFixedPreFix"},
    rule=_RULE_PLAIN + " || " + _RULE_DICT + " || " + _RULE_IDX,
    assumptions=_ASSUME + ["heap safety of the real code is observed (ASan, exact-size buffers), not proved"],
    trusted_base=_TRUST,
  ),
}

# what the check delivers, in the component builder's words
PART['C11'].update(
    text='(PLAIN / BYTE_STREAM_SPLIT / dictionary parts) decode(encode v) = v with consumed = encoded size for the 8 PLAIN types, BSS (generic K, float, double scalar kernels) and the dictionary builder + index decoders (over any round-tripping index codec), all lengths; models tied to plain.c / byte_stream_split.c / dictionary.c by differential execution',
    level_note='Lean kernel; translator (dictionary constants); harness with exact-size buffers under ASan/UBSan',
    technique='Lean 4 proofs over executable models mirroring the C, differential correspondence to the C code')
PART['C12'].update(
    text="(PLAIN / BYTE_STREAM_SPLIT / dictionary page parts) encoder bytes proved equal to an independent Spec encoder written from the Parquet Encodings document; Spec decoder reads carquet's bytes and carquet's decoders read Spec bytes; all eight PLAIN decoders (BOOLEAN, INT32, INT64, INT96, FLOAT, DOUBLE, BYTE_ARRAY, FIXED_LEN_BYTE_ARRAY) equal to the Spec decoders on every input (accept/reject, values, bytes consumed)",
    level_note='Lean kernel; harness; my reading of the format document',
    technique="Lean 4 proofs Impl = Spec, plus Spec decoders run on the real encoder's output in the driver")
PART['C08'].update(
    text='(PLAIN / BYTE_STREAM_SPLIT / dictionary index parts) decoders never read outside the declared input on arbitrary bytes and counts; short inputs rejected; BYTE_ARRAY slices lie inside the input; dictionary index look-up in range after fix F7 (pre-fix counterexample kernel-checked and replayed)',
    level_note='Lean kernel for the index arithmetic; heap safety of the real code observed under ASan',
    technique='Lean 4 proofs over access-reporting models + sanitizer-instrumented differential execution')
