"""Component cfun: small pure scalar C functions are TRANSLATED from clang-14's typed AST of /repo's current source into
Lean definitions on every run (translate/gen_cfun.py -> lean/Carquet/Gen/CFun.lean, semantics lean/Carquet/Impl/CSem.lean),
and theorems link the generated definitions to the hand-written Impl models each property's theorems are about.  A change
to one of these C functions breaks a proof obligation, not merely a sampled comparison.  The translator itself is checked on
every run by calling the real compiled functions (harness/ops_cfun.c through generated wrappers) on inputs the Lean side
generates (driver --gen cfun) and comparing with the generated definitions."""

_TECH = ("Lean 4 proof over definitions regenerated from the C source by a clang-AST translator + differential self-check of "
         "the translator")
_TRUST = ["clang-14's typed JSON AST (-ast-dump=json) of the current source, incl. its implicit conversions and its "
          "constant evaluation of enumerators / sizeof",
          "translate/gen_cfun.py (C subset -> Lean over BitVec/Bool) and lean/Carquet/Impl/CSem.lean (fixed-width integer "
          "semantics, undefined-behaviour predicates); both validated on every run against the real compiled functions "
          "(component cfun: boundary values of every parameter type, values next to other arguments, seeded random)"]
_ASSUME = ["LP64 little-endian host, gcc/clang implementation-defined choices (arithmetic >> of negative values, wrapping "
           "conversion to narrower signed types, signed char); the translator asks clang and refuses to run otherwise",
           "a translated function is pure: it reads its scalar parameters and the struct fields it names, nothing else "
           "(the translator rejects anything else: stores through pointers, globals, calls to untranslated functions)"]
_RULE = ("cfun: for every translated function, the Lean side generates argument tuples as bit patterns (every boundary value "
         "of one-parameter functions: 0, 1, -1, min/max, all powers of two and their neighbours; thinned boundary cross "
         "product for two parameters; 500 (thorough 6000) seeded tuples per function mixing boundary, random, small and "
         "`another argument +-2 / sum / difference` values) together with the generated `_defined` verdict; the harness calls "
         "the REAL function for defined tuples only (undefined ones are trivial lines) and the driver compares value and "
         "definedness, and evaluates the hand-written model side of each link theorem on the C result (model_link_*, a "
         "failing input for a changed function); distinct = distinct (function, arguments)")
_FID = {"Gen.CFun (translated from C on every run)": "generated"}


def _p(pid, names, text):
    return dict(
        imports=[f"Carquet.Properties.{pid}.CFun"],
        obligations=[f"Carquet.Properties.{pid}.{pid}_cfun_{n}" for n in names],
        components=["cfun"],
        pregen={"cfun": "cfun"},
        fidelity=_FID,
        rule=_RULE,
        assumptions=_ASSUME,
        trusted_base=_TRUST,
        text=text,
        technique=_TECH,
        level_note="Lean kernel; clang-14 AST; gen_cfun.py + CSem.lean (self-checked against the compiled functions every run)",
    )


def _with_defined(names):
    out = []
    for n in names:
        out += [n, n + "_defined"]
    return out


PART = {
  "C01": _p("C01", _with_defined(["bit_width_for_max"]),
            "translated-function tie (component cfun): page_writer.c `bit_width_for_max` as translated from the current C "
            "source is proved equal to Impl.Writer.bitWidthForMax for every non-negative int16_t level, with no undefined "
            "behaviour and enough loop fuel"),
  "C04": _p("C04", _with_defined(["page_header_sizes_valid", "mmap_header_window", "mmap_body_in_file", "zero_copy_eligible"]) +
            ["loadHeader_window", "loadHeader_uses_mmap_header_window", "bodyBytes_guard"],
            "translated-function tie (component cfun): the page-bounds guards of page_reader.c as translated from the current C "
            "source - page_header_sizes_valid, mmap_header_window, mmap_body_in_file (under its documented precondition "
            "0 <= offset <= file_size; outside it the C subtraction wraps, kernel-checked example) - and "
            "carquet_page_is_zero_copy_eligible are proved equal to the guards of the reader model (Impl.Reader.sizesValid, the "
            "mapped branches of loadHeader and bodyBytes, zeroCopyEligible) for all 64-bit sizes/offsets and all int32 sizes; "
            "dropping `- header_size`, a comparison or a sign check in the C code makes the obligation fail to build"),
  "C06": _p("C06", _with_defined(["get_value_size", "get_type_size", "bit_width_for_max"]),
            "translated-function tie (component cfun): page_reader.c get_value_size / bit_width_for_max and batch_reader.c "
            "get_type_size as translated from the current C source are proved equal to Impl.Reader.valueSize (all enum values "
            "and type lengths except FLBA with a negative length, where code and model differ: kernel-checked example), "
            "Impl.Reader.bitWidthForMax (all non-negative int) and the stated typeSize"),
  "C09": _p("C09", _with_defined(["snappy_hash", "snappy_compress_bound", "lz4_hash", "lz4_compress_bound"]),
            "translated-function tie (component cfun): snappy_hash, lz4_hash and the two compress_bound functions as translated "
            "from the current C source are proved equal to Impl.Snappy.hashIdx / compressBound and Impl.Lz4.hash / bound (hashes: "
            "all 32-bit inputs; bounds: every size whose bound fits a size_t - beyond that the C sum wraps, kernel-checked example)"),
  "C11": _p("C11", _with_defined(["zigzag_encode32", "zigzag_encode64", "zigzag_decode32", "zigzag_decode64",
                                  "delta_zigzag_decode64", "delta_zigzag_encode64", "bit_width_required",
                                  "bit_width_for_count", "packed_size", "clz32", "clz64", "bit_width32", "bit_width64",
                                  "ctz32", "popcount32", "popcount64"]) + ["ctz32_zero"],
            "translated-function tie (component cfun): the encoders' scalar helpers as translated from the current C source - "
            "endian.h zigzag encode/decode 32/64, delta.c zigzag and bit_width_required, dictionary.c bit_width_for_count, "
            "bitpack.h carquet_packed_size / bit_width32/64 / clz / ctz / popcount - are proved equal to Impl.Varint, Impl.Delta, "
            "Impl.Dictionary, Impl.Bitpack (resp. to Nat.log2 / lowest set bit / number of set bits) for all inputs (packed_size: "
            "while count*width+7 fits a size_t), free of undefined behaviour, loop fuel sufficient"),
  "C13": _p("C13", ["zigzag_encode64", "zigzag_encode64_defined", "zigzag_decode64", "buffer_reader_remaining",
                    "buffer_reader_remaining_defined", "buffer_reader_has", "buffer_reader_has_defined", "has_bytes",
                    "has_bytes_defined"],
            "translated-function tie (component cfun): carquet_zigzag_encode64/decode64 as translated from the current C source "
            "are proved equal to the Thrift model's zigzagEnc / zigzagDec on the int64 / uint64 values, and has_bytes / "
            "carquet_buffer_reader_has to Impl.Thrift.Dec.has for every reader position inside its buffer and every size_t n "
            "(the spelling `n <= size - pos` of /repo f656688; the earlier `pos + n <= size` wrapped and the theorem had to "
            "exclude n >= 2^64 - pos)"),
  "C16": _p("C16", ["ptype_codes"] + _with_defined(["get_value_size", "get_compare_width", "fixed_width"]) +
            ["get_value_size_unknown", "get_compare_width_unknown", "fixed_width_unknown"],
            "translated-function tie (component cfun): statistics.c get_value_size, reader/statistics.c get_compare_width and "
            "page_index.c fixed_width as translated from the current C source are proved equal to Impl.Stats.valueSize / cmpWidth "
            "/ fixedWidth for every physical type (enumerators re-extracted from types.h) and every int32 type_length, and 0 on "
            "codes outside the enumeration"),
  "C19": _p("C19", _with_defined(["next_power_of_two", "align_up"]),
            "translated-function tie (component cfun): buffer.c next_power_of_two and arena.c align_up as translated from the "
            "current C source are proved equal to Impl.Alloc.Buffer.nextPow2 (n <= 2^63; beyond that the C result wraps to 0, "
            "kernel-checked example) and Impl.Alloc.Arena.alignUp (every power-of-two alignment, value + alignment - 1 < 2^64)"),
  "C20": _p("C20", _with_defined(["bloom_filter_block_index", "xxh64_rotl", "xxh64_round", "xxh64_merge_round"]),
            "translated-function tie (component cfun): bloom_filter_block_index, xxh64_rotl, xxh64_round, xxh64_merge_round as "
            "translated from the current C source are proved equal to Impl.Bloom.blockIndex and Impl.Xxh64.rotl / round / "
            "mergeRound for all inputs (rotl: counts up to 64; it is free of undefined behaviour exactly for counts 1..63), so "
            "replacing the multiply-shift by `%` or changing a rotation count or prime breaks a proof obligation"),
}
