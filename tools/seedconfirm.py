#!/usr/bin/env python3
"""tools/seedconfirm.py <seeded-id>...: confirm a seeded change independently in a scratch worktree of
/repo HEAD: (1) clean build, demo passes; (2) with the patch: builds, the pinned test-suite passes,
demo fails.  Records the result in seeded/<id>/meta.json["confirmed"].  The worktree is removed."""
import json, os, shutil, subprocess, sys

V = os.path.dirname(os.path.dirname(os.path.abspath(__file__)))


def sh(cmd, **kw):
    return subprocess.run(cmd, stdout=subprocess.PIPE, stderr=subprocess.STDOUT, text=True, **kw)


def build(wt):
    r = sh(f"cmake -G Ninja -S {wt} -B {wt}/_build >/dev/null && cmake --build {wt}/_build -j16 2>&1 | tail -3", shell=True)
    return r.returncode == 0 and "FAILED" not in r.stdout and "error:" not in r.stdout, r.stdout[-600:]


def ctest(wt):
    r = sh(f"ctest --test-dir {wt}/_build -j4 --timeout 900 2>&1 | tail -5", shell=True)
    if "100% tests passed" in r.stdout:
        return True, r.stdout[-300:]
    for attempt in range(6):     # fixed /tmp names collide with concurrent runs: re-run the failed ones alone
        r = sh(f"ctest --test-dir {wt}/_build --rerun-failed -j1 --timeout 900 2>&1 | tail -5", shell=True)
        if "100% tests passed" in r.stdout:
            return True, r.stdout[-300:]
    return False, r.stdout[-600:]


def demo(d, wt):
    env = dict(os.environ, REPO=wt)
    b = sh(["sh", os.path.join(d, "build.sh")], env=env, cwd=d)
    if b.returncode != 0:
        return None, "demo build failed: " + b.stdout[-500:]
    exe = os.path.join(d, "demo")
    if os.path.exists(os.path.join(d, "demo.sh")) and not os.path.exists(exe):
        r = sh(["sh", os.path.join(d, "demo.sh")], env=env, cwd=d, timeout=600)
    else:
        try:
            r = sh([exe], env=env, cwd=d, timeout=600)
        except subprocess.TimeoutExpired:
            return 124, "timeout"
    return r.returncode, r.stdout[-400:]


def main():
    for sid in sys.argv[1:]:
        d = os.path.join(V, "seeded", sid)
        wt = f"/tmp/sc-{sid}"
        sh(["git", "-C", "/repo", "worktree", "remove", "--force", wt])
        sh(["git", "-C", "/repo", "worktree", "add", "--detach", wt])
        res = {}
        try:
            ok, log = build(wt)
            res["clean_builds"] = ok
            rc, out = demo(d, wt)
            res["demo_passes_without_change"] = (rc == 0)
            res["demo_clean_rc"] = rc
            a = sh(["git", "-C", wt, "apply", os.path.join(d, "patch.diff")])
            res["patch_applies"] = a.returncode == 0
            if a.returncode == 0:
                ok, log = build(wt)
                res["builds_with_change"] = ok
                t, tl = ctest(wt)
                res["suite_passes_with_change"] = t
                rc, out = demo(d, wt)
                res["demo_fails_with_change"] = (rc is not None and rc != 0)
                res["demo_changed_rc"] = rc
                res["demo_output_tail"] = out[-300:]
        finally:
            sh(["git", "-C", "/repo", "worktree", "remove", "--force", wt])
            for f in ("demo",):
                try:
                    os.remove(os.path.join(d, f))
                except OSError:
                    pass
        meta = json.load(open(os.path.join(d, "meta.json")))
        meta["confirmed"] = res
        meta["confirmed_at_repo"] = sh(["git", "-C", "/repo", "rev-parse", "--short", "HEAD"]).stdout.strip()
        json.dump(meta, open(os.path.join(d, "meta.json"), "w"), indent=1)
        good = all(res.get(k) for k in ("patch_applies", "builds_with_change", "suite_passes_with_change",
                                        "demo_fails_with_change", "demo_passes_without_change"))
        print(sid, "CONFIRMED" if good else "NOT CONFIRMED", {k: v for k, v in res.items() if k != "demo_output_tail"})


if __name__ == "__main__":
    main()
