#!/bin/sh
# create a private working copy of /verif for a component builder: tools/mkws.sh <name>
set -e
n="$1"
mkdir -p /tmp/w/$n
rsync -a --delete --exclude .git --exclude build --exclude 'lean/.lake' --exclude replays --exclude evidence /verif/ /tmp/w/$n/verif/
mkdir -p /tmp/w/$n/verif/evidence /tmp/w/$n/verif/fixes
cd /tmp/w/$n/verif && python3 translate/gen.py >/dev/null && echo "/tmp/w/$n/verif ready"
