#!/usr/bin/env python3
"""tools/corpuscheck.py [--prune] [Cnn ...]: replay every harvested corpus file corpus/<prop>/seeded-*.ops on the UNCHANGED
tree, line by line, `reps` times: a line is kept only if every replay produces a finished line whose driver verdict is `ok`
and whose C-side predicates are all 1.  Lines the harness cannot replay faithfully (ops that need context the line does not
carry, timing-dependent ops) would raise a false alarm on the unchanged tree and are removed (--prune); empty files are
deleted.  Without --prune only reports."""
import glob, os, subprocess, sys, tempfile
sys.path.insert(0, os.path.dirname(os.path.abspath(__file__)))
import vlib

V = vlib.VERIF


def judge(exe, lines, reps=2):
    """-> list of booleans (line is reliable)"""
    ok = [True] * len(lines)
    with tempfile.TemporaryDirectory() as td:
        for rep in range(reps):
            for i, l in enumerate(lines):
                if not ok[i]:
                    continue
                inp = os.path.join(td, "in.ops"); outp = os.path.join(td, "out.ops")
                open(inp, "w").write(l + "\n")
                rc, err = vlib.run_harness(exe, "replay", 0, "quick", outp, ["--in", inp], timeout=600)
                try:
                    produced = [x for x in open(outp, errors="replace").read().split("\n") if x and not x.startswith("#")]
                except OSError:
                    produced = []
                if rc != 0 or not produced:
                    ok[i] = False; continue
                vlib.run_driver(outp, outp + ".ver")
                vers = [x for x in open(outp + ".ver", errors="replace").read().split("\n")]
                raw = open(outp, errors="replace").read().split("\n")
                for j, s in enumerate(raw):
                    if not s or s.startswith("#"):
                        continue
                    if " | " not in s and not s.rstrip().endswith("|"):
                        ok[i] = False
                    outs = s.split(" | ", 1)[1] if " | " in s else ""
                    if any(t.startswith("p_") and t.endswith("=0") for t in outs.split()):
                        ok[i] = False
                    v = vers[j] if j < len(vers) else "MISSING"
                    if v.split(" ", 1)[0] != "ok":
                        ok[i] = False
    return ok


def main():
    prune = "--prune" in sys.argv
    props = [a for a in sys.argv[1:] if not a.startswith("--")]
    exe = vlib.build_harness("asan")
    okb, log, _ = vlib.lake_build(["driver"])
    if not okb:
        print("driver does not build"); return 2
    bad_total = 0
    for d in sorted(glob.glob(os.path.join(V, "corpus", "C??"))):
        if props and os.path.basename(d) not in props:
            continue
        for f in sorted(glob.glob(os.path.join(d, "seeded-*.ops"))):
            allines = open(f).read().split("\n")
            lines = [l for l in allines if l and not l.startswith("#")]
            good = judge(exe, lines)
            nbad = good.count(False)
            if nbad:
                bad_total += nbad
                print(f"{os.path.relpath(f, V)}: {nbad} of {len(lines)} line(s) unreliable on the unchanged tree")
                if prune:
                    keep = [l for l, g in zip(lines, good) if g]
                    if keep:
                        head = [l for l in allines if l.startswith("#")]
                        open(f, "w").write("\n".join(head + keep) + "\n")
                    else:
                        os.remove(f)
    print("unreliable lines:", bad_total)
    return 0


if __name__ == "__main__":
    sys.exit(main())
