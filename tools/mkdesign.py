#!/usr/bin/env python3
"""tools/mkdesign.py: regenerate the generated sections of DESIGN.md (between the markers):
§9.5 status per property (from tools/parts via props.py) and §9.6 seeded changes (from seeded/*/meta.json)."""
import json, os, glob, re, sys
HERE = os.path.dirname(os.path.abspath(__file__)); V = os.path.dirname(HERE)
sys.path.insert(0, HERE)
from props import PROPS

def status_table():
    out = ["| property | obligations (theorems re-checked with `#print axioms` on every run) | tie: harness components | modelled exactly / otherwise |", "|---|---|---|---|"]
    for pid in sorted(PROPS):
        c = PROPS[pid]
        obs = [o.split(".")[-1] for o in c["obligations"]]
        fid = "; ".join(f"{k}: {v}" for k, v in c.get("fidelity", {}).items())
        out.append(f"| {pid} | {len(obs)}: " + ", ".join(obs) + f" | {', '.join(c['components'])} | {fid} |")
    return "\n".join(out)

def seeded_table():
    rows = []
    for d in sorted(glob.glob(os.path.join(V, "seeded", "*", "meta.json"))):
        m = json.load(open(d)); sid = os.path.basename(os.path.dirname(d))
        chk = m.get("checked", {})
        res = []
        for tier, r in chk.items():
            for p, v in r.items():
                res.append(f"{p} {tier}: " + ("**caught**" if v.get("detected") else "missed"))
        needs = (m.get("needs_to_manifest") or "").replace("|", "/").replace("\n", " ")
        summ = (m.get("summary") or "").replace("|", "/").replace("\n", " ")
        if m.get("obsolete"):
            res = ["obsolete: " + m["obsolete"][:160]]
        rows.append(f"| {sid} | {summ[:260]} | {needs[:200]} | {'; '.join(res) or 'not run'} |")
    return "| id | change | needs to manifest | checks |\n|---|---|---|---|\n" + "\n".join(rows)

def main():
    p = os.path.join(V, "DESIGN.md"); s = open(p).read()
    for tag, body in (("STATUS", status_table()), ("SEEDED", seeded_table())):
        a, b = f"<!-- BEGIN GENERATED {tag} -->", f"<!-- END GENERATED {tag} -->"
        if a not in s:
            print("marker missing:", tag); continue
        s = s[:s.index(a) + len(a)] + "\n" + body + "\n" + s[s.index(b):]
    open(p, "w").write(s)
    print("DESIGN.md generated sections refreshed")

if __name__ == "__main__":
    main()
