#!/bin/sh
# tools/seedstage.sh <PROPTAG>...: stage /tmp/mut/<PROPTAG>/out/{1,2,3} as seeded/<PROPTAG>-k (files only; confirm and test with tools/seedpar.py)
for id in "$@"; do for k in 1 2 3; do
  [ -f /tmp/mut/$id/out/$k/patch.diff ] || continue
  mkdir -p /verif/seeded/$id-$k
  for f in patch.diff meta.json demo.c build.sh demo.sh; do [ -f /tmp/mut/$id/out/$k/$f ] && cp /tmp/mut/$id/out/$k/$f /verif/seeded/$id-$k/; done
  for f in /tmp/mut/$id/out/$k/*.c /tmp/mut/$id/out/$k/*.h; do [ -f "$f" ] && cp "$f" /verif/seeded/$id-$k/; done
  for f in /verif/seeded/$id-$k/build.sh /verif/seeded/$id-$k/demo.sh; do [ -f $f ] && sed -i -e "s#/tmp/mut/$id/repo#\${REPO:-/repo}#g" -e "s#/tmp/mut/$id/out/$k#.#g" $f; done
  python3 -c "import json,sys;p=sys.argv[1];m=json.load(open(p));m['property']=sys.argv[2][:3];json.dump(m,open(p,'w'),indent=1)" /verif/seeded/$id-$k/meta.json $id
  echo staged $id-$k
done; done
