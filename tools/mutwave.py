#!/usr/bin/env python3
"""tools/mutwave.py <TAG> [Cnn ...]: prepare a whole wave of seeded-change agents: worktrees and PROPERTY.md through
tools/mutprep.py, and a PROMPT.txt per agent made from tools/mutprompt.txt whose FOCUS sentence lists, for that property,
the sites every earlier seeded change touched (file + first sentence of its summary, from seeded/*/meta.json) so that the
new agent looks elsewhere.  Only that list of sites is given; nothing about the checks, the models or the harness."""
import glob, json, os, re, subprocess, sys

V = os.path.dirname(os.path.dirname(os.path.abspath(__file__)))
tag = sys.argv[1]
props = sys.argv[2:] or [f"C{n:02d}" for n in range(1, 21)]
IDEAS = (" Look for something of a genuinely different kind and, if you can, in a function or file that the list above does not "
         "mention at all. Ideas that have NOT been tried much: a change in a shared header, macro or inline helper (src/core/*.h, "
         "include/carquet/*.h) that is wrong only for one of its users; two cooperating sites that each look fine alone; a defect "
         "that needs a particular combination of writer/reader OPTIONS (compression level, page size, statistics, checksums, "
         "dictionary, threads) rather than particular data; one that depends on the CPU-feature dispatch taking a particular "
         "branch; a public function of the property's area that the list does not mention; state that survives from one handle, "
         "row group, page or call to the next (a missing reset, a cached value, a static); an integer that is narrowed, widened "
         "or compared signed/unsigned at one particular boundary; an error path taken after partial success.")
IDEAS_H = (" Look for something of a genuinely different kind and, if you can, in a function or file that the list above does not "
           "mention at all. Ideas that have NOT been tried much: a 'performance optimisation' (fast path, cached value, batching, "
           "prefetch, a threshold that switches strategy, work skipped 'because it cannot matter') that is wrong for one shape of "
           "input; a defect confined to ONE I/O mode, ONE codec, ONE physical type or ONE repetition kind while the others stay "
           "correct; a writer-side slip that carquet's own reader tolerates but an independent reader of the format would not; a "
           "rarely used public function declared in include/carquet/carquet.h (read the header for functions the list does not "
           "mention); release order, double release or a forgotten release on a path taken only after an earlier step succeeded and "
           "a later one failed; C integer promotion, sign extension or truncation at exactly one width; an off-by-one that needs a "
           "value exactly at a power of two (255/256, 65535/65536, 2^31, 2^32); behaviour that differs between the first and a "
           "later use of the same handle, thread or process; two statements swapped so that a value is used before it is updated.")
if tag >= "h":
    IDEAS = IDEAS_H
subprocess.run([sys.executable, os.path.join(V, "tools", "mutprep.py"), tag] + props, check=True)
tmpl = open(os.path.join(V, "tools", "mutprompt.txt")).read()
for pid in props:
    sites = []
    for d in sorted(glob.glob(os.path.join(V, "seeded", pid + "*"))):
        try:
            m = json.load(open(os.path.join(d, "meta.json")))
        except Exception:
            continue
        if m.get("property", pid) != pid:
            continue
        s = re.sub(r"\s+", " ", m.get("summary", "")).strip()
        first = re.split(r"(?<=[a-z0-9\)])[.:;] ", s)[0][:170]
        files = ",".join(os.path.basename(f) for f in m.get("files", [])[:2])
        sites.append(f"[{files}] {first}")
    focus = ("These sites have been studied already and must be avoided (do not re-use them or a close variant): "
             + " || ".join(sites) + "." + IDEAS) if sites else IDEAS
    ident = pid + tag
    open(f"/tmp/mut/{ident}/PROMPT.txt", "w").write(tmpl.replace("@ID@", ident).replace("@FOCUS@", focus))
    print(ident, len(sites), "earlier sites listed")
