#!/usr/bin/env python3
"""tools/mutprep.py <TAG> <PROP> [<PROP>...]: prepare scratch worktrees for a wave of seeded-change agents.
For each property Cnn creates /tmp/mut/<Cnn><TAG>/repo (detached worktree of /repo HEAD), /tmp/mut/<Cnn><TAG>/out/
and /tmp/mut/<Cnn><TAG>/PROPERTY.md holding ONLY the property's text from properties.jsonl (nothing else
from /verif is given to the agent).  Prints the agent ids."""
import json, os, subprocess, sys

V = os.path.dirname(os.path.dirname(os.path.abspath(__file__)))
tag = sys.argv[1]
props = {json.loads(l)["id"]: json.loads(l) for l in open(os.path.join(V, "properties.jsonl"))}
for pid in sys.argv[2:]:
    p = props[pid]
    d = f"/tmp/mut/{pid}{tag}"
    os.makedirs(d + "/out", exist_ok=True)
    subprocess.run(["git", "-C", "/repo", "worktree", "remove", "--force", d + "/repo"], stderr=subprocess.DEVNULL)
    r = subprocess.run(["git", "-C", "/repo", "worktree", "add", "--detach", d + "/repo", "HEAD"],
                       stdout=subprocess.PIPE, stderr=subprocess.STDOUT, text=True)
    if r.returncode != 0:
        print("worktree failed:", r.stdout); sys.exit(1)
    with open(d + "/PROPERTY.md", "w") as f:
        f.write(f"# Property {pid}: {p['title']}\n\n")
        f.write("## Statement\n" + p["statement"] + "\n\n")
        f.write("## Quantifier\n" + json.dumps(p.get("quantifier"), indent=1) + "\n\n")
        f.write("## Why the existing tests cannot settle it\n" + p.get("why_tests_cant", "") + "\n\n")
        f.write("## Anchors in the code\n" + json.dumps(p.get("anchors"), indent=1) + "\n")
    print(f"{pid}{tag}")
