#!/usr/bin/env python3
"""Orchestrator:  python3 tools/check.py --property Cnn --tier quick|thorough
                  python3 tools/check.py --replay replays/<file>.json

Steps (DESIGN.md §2.3): regenerate Gen/*.lean from /repo -> lake build + audit -> build the
harness from /repo's working tree (hooks on, ASan+UBSan) -> corpus + correspondence ->
decide -> evidence.  Exit 0 iff the property held on everything explored and every proof
obligation checked; otherwise a line `VIOLATION property=<id> replay=<path>` and exit 1."""
import argparse, hashlib, json, os, re, subprocess, sys, time, glob

sys.path.insert(0, os.path.dirname(os.path.abspath(__file__)))
import vlib
from props import PROPS

V = vlib.VERIF


def parse_ops_line(s):
    """-> (op, ins dict, outs dict or None if the line is unfinished)"""
    toks = s.split()
    if not toks:
        return None
    op, ins, outs, side = toks[0], {}, {}, 0
    for t in toks[1:]:
        if t == "|":
            side = 1
            continue
        k, _, v = t.partition("=")
        (outs if side else ins)[k] = v
    return op, ins, (outs if side else None)


def known_findings():
    known, fixed = [], []
    p = os.path.join(V, "KNOWN_FINDINGS.txt")
    if not os.path.exists(p):
        return known, fixed
    for line in open(p):
        line = line.strip()
        if line.startswith("known:"):
            m = re.match(r"known:\s+property=(\S+)\s+id=(\S+)\s+classifier=(\S+)\s+witness=(\S+)\s+(.*)", line)
            if m:
                known.append(dict(prop=m.group(1), id=m.group(2), cls=m.group(3), witness=m.group(4), text=m.group(5)))
        elif line.startswith("fixed:"):
            fixed.append(line)
    return known, fixed


class Run:
    def __init__(self, prop, tier, seed):
        self.prop, self.tier, self.seed = prop, tier, seed
        self.cfg = PROPS[prop]
        self.t0 = time.time()
        self.notes = []
        self.lines = 0
        self.distinct = set()
        self.by_op = {}
        self.verdicts = {}
        self.samples = []
        self.stats = {}
        self.propfails = []      # (component, ops line, why)   on untagged inputs
        self.known_hits = {}     # classifier -> count
        self.diverges = []       # (component, ops line, why)
        self.broken = []         # names of theorems / ties that no longer check
        self.sanitizer = []

    def note(self, s):
        self.notes.append(s)
        print("  " + s, flush=True)

    # ---- correspondence over one ops file ----
    def consume(self, comp, ops_path, rc, err, use_driver=True):
        ver_path = ops_path + ".ver"
        raw = open(ops_path, errors="replace").read().split("\n")
        if raw and raw[-1] == "":
            raw.pop()
        vers = None
        if use_driver:
            drc, derr = vlib.run_driver(ops_path, ver_path)
            if drc != 0:
                self.broken.append(f"driver-crashed:{comp}")
                self.note(f"driver exited {drc}: {derr[-300:]}")
            vers = open(ver_path, errors="replace").read().split("\n")
        for i, s in enumerate(raw):
            if s.startswith("#stat "):
                _, k, v = (s.split(None, 2) + ["0"])[:3]
                try:
                    self.stats[f"{comp}.{k}"] = self.stats.get(f"{comp}.{k}", 0) + int(v)
                except ValueError:
                    self.stats[f"{comp}.{k}"] = v
                continue
            if not s or s.startswith("#"):
                continue
            p = parse_ops_line(s)
            if p is None:
                continue
            op, ins, outs = p
            self.lines += 1
            self.by_op[op] = self.by_op.get(op, 0) + 1
            if outs is None:
                # unfinished line: the real code died while executing this input
                self.propfails.append((comp, s, f"real code aborted (exit {rc}) on this input: " + summarize_san(err)))
                continue
            key = hashlib.sha1((op + " " + " ".join(f"{k}={v}" for k, v in ins.items())).encode()).digest()
            if outs.get("triv") != "1":
                self.distinct.add(key)
            if len(self.samples) < 6 and (self.lines % 97 == 1):
                self.samples.append(s if len(s) < 400 else s[:400] + "...")
            cfail = [k[2:] for k, v in outs.items() if k.startswith("p_") and v == "0"]
            v = vers[i] if vers is not None and i < len(vers) else ("ok" if not use_driver else "MISSING")
            vk = v.split(" ", 1)[0]
            self.verdicts[vk] = self.verdicts.get(vk, 0) + 1
            pf = []
            if cfail:
                pf.append("C-side predicate false: " + ",".join(cfail))
            if vk in ("PROPFAIL", "DIVERGE+PROPFAIL"):
                pf.append("driver: " + v)
            if pf:
                kf = outs.get("kf")
                if kf and kf in self.open_classifiers:
                    self.known_hits[kf] = self.known_hits.get(kf, 0) + 1
                else:
                    self.propfails.append((comp, s, "; ".join(pf)))
            if vk in ("DIVERGE", "DIVERGE+PROPFAIL", "BADLINE", "MISSING"):
                self.diverges.append((comp, s, v))
        if rc != 0 and not any(c == comp and "aborted" in w for c, _, w in self.propfails):
            self.propfails.append((comp, "<no op line>", f"harness exited {rc}: " + summarize_san(err)))
        for m in re.finditer(r"runtime error: [^\n]*", err or ""):
            if len(self.sanitizer) < 20 and m.group(0) not in self.sanitizer:
                self.sanitizer.append(m.group(0))


def summarize_san(err):
    if not err:
        return ""
    m = re.search(r"(ERROR: AddressSanitizer[^\n]*|ERROR: LeakSanitizer[^\n]*|runtime error:[^\n]*|SUMMARY:[^\n]*)", err)
    return m.group(1) if m else err.strip().split("\n")[-1][:200]


def write_replay(run, kind, items, extra=None):
    os.makedirs(os.path.join(V, "replays"), exist_ok=True)
    path = os.path.join(V, "replays", f"{run.prop}-{kind}-seed{run.seed}" + ("-trial" + os.environ.get("VERIF_REPLAY_SUFFIX", "") if os.environ.get("VERIF_EVIDENCE_DIR") else "") + ".json")
    body = dict(property=run.prop, kind=kind, seed=run.seed, tier=run.tier,
                lines=[dict(component=c, line=l, why=w) for c, l, w in items[:50]],
                replay_cmd=f"python3 tools/check.py --replay {path}")
    if extra:
        body.update(extra)
    with open(path, "w") as f:
        json.dump(body, f, indent=1)
    return path


def do_replay(path):
    body = json.load(open(path))
    exe = vlib.build_harness("asan")
    os.makedirs(vlib.BUILD, exist_ok=True)
    tmp_in = os.path.join(vlib.BUILD, "replay.in")
    tmp_out = os.path.join(vlib.BUILD, "replay.ops")
    with open(tmp_in, "w") as f:
        for it in body.get("lines", []):
            if it["line"].startswith("<"):
                continue
            f.write(it["line"].split(" | ")[0] + "\n")
    rc, err = vlib.run_harness(exe, "replay", 0, "quick", tmp_out, ["--in", tmp_in])
    print(f"harness exit {rc}")
    if err.strip():
        print(err[-3000:])
    ok, log, _ = vlib.lake_build(["driver"])
    if ok:
        vlib.run_driver(tmp_out, tmp_out + ".ver")
        for a, b in zip(open(tmp_out).read().split("\n"), open(tmp_out + ".ver").read().split("\n")):
            if a:
                print(a[:300]); print("   ->", b)
    else:
        print(open(tmp_out).read()[:5000])
    return 0


def main():
    ap = argparse.ArgumentParser()
    ap.add_argument("--property")
    ap.add_argument("--tier", default=os.environ.get("VERIF_TIER", "quick"))
    ap.add_argument("--replay")
    a = ap.parse_args()
    if a.replay:
        return do_replay(a.replay)
    prop, tier = a.property, a.tier
    seed = int(os.environ.get("VERIF_SEED", "1"))
    run = Run(prop, tier, seed)
    cfg = run.cfg
    known, fixed = known_findings()
    known = [k for k in known if k["prop"] == prop]
    run.open_classifiers = {k["cls"] for k in known}
    print(f"== {prop} tier={tier} seed={seed}", flush=True)
    os.makedirs(vlib.BUILD, exist_ok=True)
    work = os.path.join(vlib.BUILD, f"run-{prop}" + (f"-trial{os.getpid()}" if os.environ.get("VERIF_EVIDENCE_DIR") else ""))
    os.makedirs(work, exist_ok=True)

    # 1. regenerate the translated part of the model from the working tree
    tr = vlib.sh([sys.executable, os.path.join(V, "translate", "gen.py")])
    if tr.returncode != 0:
        run.broken.append("translator")
        run.note("translator failed: " + tr.stdout[-500:])
        # The tie is broken (that alone is reported).  For the SEARCH for a failing input the model and the generated shims
        # are taken from the last committed source (git HEAD of the tree under check) instead: the compiled code of the
        # working tree is then compared with the translation of HEAD, and a function whose behaviour changed shows up as a
        # divergence with a concrete input.
        import tempfile, shutil
        pristine = tempfile.mkdtemp(prefix="verif-head-")
        ar = subprocess.run(f"git -C {vlib.REPO} archive HEAD src include | tar -x -C {pristine}", shell=True,
                            stdout=subprocess.PIPE, stderr=subprocess.STDOUT, text=True)
        if ar.returncode == 0:
            tr2 = vlib.sh([sys.executable, os.path.join(V, "translate", "gen.py")], env=dict(os.environ, VERIF_REPO=pristine))
            run.note("search phase: model regenerated from git HEAD" if tr2.returncode == 0 else "search phase: translation of git HEAD failed too: " + tr2.stdout[-300:])
        shutil.rmtree(pristine, ignore_errors=True)
    elif tr.stdout.strip():
        run.note("translator: " + tr.stdout.strip().replace("\n", " | ")[:600])

    # 2. build + audit
    ok, log, dt = vlib.lake_build([cfg["module"], "driver"])
    driver_ok = ok
    obligations = cfg["obligations"]
    discharged = []
    if not ok:
        run.note("lake build failed:\n" + "\n".join(l for l in log.split("\n") if "error" in l.lower())[:1500])
        run.broken.append(f"lake-build:{cfg['module']}")
        driver_ok, _, _ = vlib.lake_build(["driver"])
        if not driver_ok:
            run.broken.append("lake-build:driver")
    else:
        hits = vlib.audit_sources()
        if hits:
            run.broken.append("audit:forbidden-construct")
            run.note("forbidden constructs: " + "; ".join(hits[:5]))
        res, _ = vlib.audit_axioms(cfg["module"], obligations, prop)
        for t in obligations:
            good, ax = res[t]
            if good and not hits:
                discharged.append(t)
            else:
                run.broken.append(f"theorem:{t} ({','.join(ax)})")
        run.axioms = {t: res[t][1] for t in obligations}
        if tier == "thorough":
            lc = vlib.sh(["lake", "env", "leanchecker", cfg["module"]], cwd=vlib.LEAN)
            if lc.returncode != 0:
                run.broken.append("leanchecker:" + cfg["module"])
                run.note("leanchecker: " + lc.stdout[-500:])
            else:
                run.note("leanchecker re-checked " + cfg["module"])
    print(f"  lean: {len(discharged)}/{len(obligations)} obligations discharged ({dt:.0f}s build)", flush=True)

    # 3. harness from the working tree
    try:
        exe = vlib.build_harness(cfg.get("variant", "asan"))
    except RuntimeError as e:
        run.note(str(e)[-1500:])
        run.broken.append("harness-build")
        exe = None

    # 4. corpus, known-finding witnesses, correspondence
    if exe:
        for k in known:
            wpath = os.path.join(V, k["witness"])
            outp = os.path.join(work, f"known-{k['id']}.ops")
            rc, err = vlib.run_harness(exe, "replay", 0, tier, outp, ["--in", wpath])
            sub = Run(prop, tier, seed); sub.open_classifiers = set()
            sub.consume("known", outp, rc, err, use_driver=driver_ok)
            if sub.propfails:
                print(f"KNOWN-FINDING: property={prop} {k['id']}: {k['text']}")
            else:
                print(f"  note: known finding {k['id']} no longer reproduces on its witness (stale entry)")
        for cf in sorted(glob.glob(os.path.join(V, "corpus", prop, "*.ops"))):
            outp = os.path.join(work, "corpus-" + os.path.basename(cf))
            rc, err = vlib.run_harness(exe, "replay", 0, tier, outp, ["--in", cf])
            run.consume("corpus:" + os.path.basename(cf), outp, rc, err, use_driver=driver_ok)
        for comp in cfg["components"]:
            outp = os.path.join(work, f"{comp}.ops")
            extra = None
            gen = cfg.get("pregen", {}).get(comp)
            if gen:
                # the Lean side generates the inputs (e.g. reference-written files) the real code is run on
                inp = os.path.join(work, f"{comp}.in")
                if not driver_ok:
                    run.broken.append(f"pregen:{comp} (driver not built)")
                    continue
                with open(inp, "w") as f:
                    g = subprocess.run([os.path.join(vlib.LEAN, ".lake", "build", "bin", "driver"), "--gen", gen,
                                        str(seed), tier], stdout=f, stderr=subprocess.PIPE, text=True)
                if g.returncode != 0:
                    run.broken.append(f"pregen:{comp}")
                    run.note("generator failed: " + g.stderr[-300:])
                    continue
                extra = ["--in", inp]
            nsh = cfg.get("shards", {}).get(comp, 1) if tier == "thorough" and not gen else 1
            if nsh > 1:
                # a slow component (forked children under ASan): nsh processes in parallel, each with its own derived
                # seed and 1/nsh of the case count; every line is self-contained, so replay does not depend on this
                from concurrent.futures import ThreadPoolExecutor
                def one(i):
                    o = os.path.join(work, f"{comp}.{i}.ops")
                    return (o,) + vlib.run_harness(exe, comp, seed * 100 + i, tier, o, extra=["--shards", str(nsh)],
                                                   timeout=cfg.get("timeout", 3000))
                with ThreadPoolExecutor(max_workers=nsh) as ex:
                    for o, rc, err in ex.map(one, range(nsh)):
                        run.consume(comp, o, rc, err, use_driver=driver_ok)
                continue
            rc, err = vlib.run_harness(exe, comp, seed, tier, outp, extra=extra, timeout=cfg.get("timeout", 3000))
            run.consume(comp, outp, rc, err, use_driver=driver_ok)

    # 5. decide
    violation = None
    if run.propfails:
        violation = ("propfail", write_replay(run, "violation", run.propfails), "")
    elif run.broken or run.diverges:
        # the property is no longer shown to hold: search the implementation for a failing input
        found = []
        if exe:
            for extra_seed in [seed * 1000 + j for j in range(1, 4 if tier == "quick" else 9)]:
                for comp in cfg["components"]:
                    outp = os.path.join(work, f"search-{comp}.ops")
                    sx = None
                    sgen = cfg.get("pregen", {}).get(comp)
                    if sgen:
                        # components whose inputs come from the Lean side: regenerate them for the search seed
                        if not driver_ok:
                            continue
                        sinp = os.path.join(work, f"search-{comp}.in")
                        with open(sinp, "w") as f:
                            g = subprocess.run([os.path.join(vlib.LEAN, ".lake", "build", "bin", "driver"), "--gen", sgen,
                                                str(extra_seed), tier], stdout=f, stderr=subprocess.PIPE, text=True)
                        if g.returncode != 0:
                            continue
                        sx = ["--in", sinp]
                    rc, err = vlib.run_harness(exe, comp, extra_seed, tier, outp, extra=sx)
                    s = Run(prop, tier, extra_seed); s.open_classifiers = run.open_classifiers
                    s.consume(comp, outp, rc, err, use_driver=driver_ok)
                    found += s.propfails
                    run.lines += s.lines
                if found:
                    break
        if found:
            violation = ("propfail", write_replay(run, "violation", found,
                         dict(broken=run.broken, diverging=[d[1][:300] for d in run.diverges[:5]])), "")
        else:
            violation = ("unshown", write_replay(run, "unshown", run.diverges,
                         dict(broken=run.broken,
                              first_diverging_line=(run.diverges[0][1][:2000] if run.diverges else None),
                              explanation="a proof obligation or the model/implementation correspondence no longer "
                                          "checks; no input on which the property itself fails was found")),
                         " no-failing-input-found")

    # 6. evidence
    wall = time.time() - run.t0
    ev = dict(property_id=prop, tier=tier, seed=seed, level=cfg["level"],
              coverage=dict(
                  obligations=len(obligations), discharged=len(discharged),
                  checker_cmd=f"cd lean && lake build {cfg['module']} driver && lake env lean ../build/axioms_{prop}.lean"
                              + (" && lake env leanchecker " + cfg["module"] if tier == "thorough" else ""),
                  trusted_base=cfg["trusted_base"],
                  theorems=obligations, axioms=getattr(run, "axioms", {}),
                  evaluations=run.lines, distinct_nontrivial=len(run.distinct),
                  rule=cfg["rule"], samples=run.samples or ["<none>"],
                  ops=run.by_op, verdicts=run.verdicts, distribution=run.stats,
                  known_finding_hits=run.known_hits, sanitizer_notes=run.sanitizer,
                  broken=run.broken, components=cfg["components"], model_fidelity=cfg.get("fidelity", {}),
                  repo_fingerprint=vlib.repo_fingerprint()),
              assumptions=cfg["assumptions"], wall_s=round(wall, 1),
              violations=(1 if violation else 0))
    evdir = os.environ.get("VERIF_EVIDENCE_DIR") or os.path.join(V, "evidence")   # seeded-change trials write elsewhere
    os.makedirs(evdir, exist_ok=True)
    with open(os.path.join(evdir, f"{prop}.json"), "w") as f:
        json.dump(ev, f, indent=1)
    print(f"  correspondence: {run.lines} lines, {len(run.distinct)} distinct non-trivial, verdicts {run.verdicts}")
    if violation:
        print(f"VIOLATION property={prop} replay={violation[1]}{violation[2]}")
        return 1
    print(f"OK {prop} ({wall:.0f}s)")
    return 0


if __name__ == "__main__":
    sys.exit(main())
