"""Shared machinery for the carquet checks: build the harness from /repo's working tree,
build and audit the Lean library, run the correspondence, decide, write evidence."""
import hashlib, json, os, re, shutil, subprocess, sys, time, glob
from concurrent.futures import ThreadPoolExecutor

VERIF = os.path.dirname(os.path.dirname(os.path.abspath(__file__)))
REPO = os.environ.get("VERIF_REPO", "/repo")
LEAN = os.path.join(VERIF, "lean")
BUILD = os.environ.get("VERIF_BUILD_DIR") or os.path.join(VERIF, "build")
HARNESS = os.path.join(VERIF, "harness")
GUARD = "CARQUET_VERIF"
NCPU = os.cpu_count() or 4

ZSTD_INC = "/root/miniconda/include"
ZSTD_LIB = "/root/miniconda/lib/libzstd.a"

PER_FILE_FLAGS = {
    "src/simd/x86/sse_ops.c": ["-msse4.2"],
    "src/simd/x86/avx2_ops.c": ["-mavx2", "-mbmi2"],
    "src/simd/x86/avx512_ops.c": ["-mavx512f", "-mavx512bw", "-mavx512vl"],
}


def per_file_flags():
    """The -m flags each x86 kernel file is compiled with, as the working tree's CMakeLists.txt says
    (GCC-like branch); falls back to the table above if the pattern is not found."""
    flags = dict(PER_FILE_FLAGS)
    try:
        txt = open(os.path.join(REPO, "CMakeLists.txt"), errors="replace").read()
    except OSError:
        return flags
    for m in re.finditer(r'set_source_files_properties\(\s*(src/simd/x86/\w+\.c)\s+PROPERTIES\s+COMPILE_FLAGS\s+"((?:-m[\w.\-]+\s*)+)"\s*\)', txt):
        flags[m.group(1)] = m.group(2).split()
    return flags


DEFS = ["-DCARQUET_ARCH_X86", "-DCARQUET_ENABLE_SSE", "-DCARQUET_ENABLE_AVX2", "-DCARQUET_ENABLE_AVX512",
        "-D" + GUARD]
VARIANTS = {
    # address + undefined; UB other than memory errors is reported on stderr, not fatal
    "asan": ["-O1", "-g", "-fno-omit-frame-pointer", "-fsanitize=address,undefined",
             "-fno-sanitize=alignment", "-fopenmp"],
    "tsan": ["-O1", "-g", "-fsanitize=thread", "-fopenmp"],
    "plain": ["-O2", "-g", "-fopenmp"],
}


def sh(cmd, **kw):
    return subprocess.run(cmd, stdout=subprocess.PIPE, stderr=subprocess.STDOUT, text=True, **kw)


def repo_sources():
    out = []
    for root, _, files in os.walk(os.path.join(REPO, "src")):
        if "/simd/arm" in root:
            continue
        for f in files:
            if f.endswith(".c"):
                out.append(os.path.relpath(os.path.join(root, f), REPO))
    return sorted(out)


def _hash_tree(paths):
    h = hashlib.sha256()
    for p in sorted(paths):
        h.update(p.encode())
        with open(p, "rb") as f:
            h.update(f.read())
    return h.hexdigest()[:16]


def repo_fingerprint():
    files = []
    for sub in ("src", "include"):
        for root, _, fs in os.walk(os.path.join(REPO, sub)):
            files += [os.path.join(root, f) for f in fs if f.endswith((".c", ".h"))]
    files.append(os.path.join(REPO, "CMakeLists.txt"))
    return _hash_tree(files)


def build_harness(variant="asan", log=None):
    """Compile every carquet source of the working tree plus harness/*.c; returns binary path.
    Cached under build/ by a hash of all inputs; stale caches of the same variant are removed."""
    hfiles = sorted(glob.glob(os.path.join(HARNESS, "*.c")) + glob.glob(os.path.join(HARNESS, "*.h")))
    key = hashlib.sha256((repo_fingerprint() + _hash_tree(hfiles) + variant +
                          json.dumps(VARIANTS[variant])).encode()).hexdigest()[:16]
    d = os.path.join(BUILD, f"h-{variant}-{key}")
    exe = os.path.join(d, "harness")
    if os.path.exists(exe):
        return exe
    # stale caches: only those not touched for 3 hours (another run may be using a younger one right now)
    for old in glob.glob(os.path.join(BUILD, f"h-{variant}-*")):
        try:
            if time.time() - os.path.getmtime(old) > 3 * 3600:
                shutil.rmtree(old, ignore_errors=True)
        except OSError:
            pass
    os.makedirs(d, exist_ok=True)
    base = ["gcc", "-std=gnu11", "-w"] + VARIANTS[variant] + DEFS + \
           [f"-I{REPO}/include", f"-I{REPO}/src", "-isystem", ZSTD_INC, f"-I{HARNESS}"]
    jobs = []
    pff = per_file_flags()
    for s in repo_sources():
        o = os.path.join(d, s.replace("/", "_")[:-2] + ".o")
        jobs.append((base + pff.get(s, []) + ["-c", os.path.join(REPO, s), "-o", o], o))
    comps = []
    for c in sorted(glob.glob(os.path.join(HARNESS, "*.c"))):
        o = os.path.join(d, "hx_" + os.path.basename(c)[:-2] + ".o")
        jobs.append((base + ["-c", c, "-o", o], o))
        m = re.findall(r"const h_component (comp_\w+)\s*=", open(c).read())
        comps += m
    reg = os.path.join(d, "registry.c")
    with open(reg, "w") as f:
        f.write('#include "common.h"\n')
        for c in comps:
            f.write(f"extern const h_component {c};\n")
        f.write("const h_component* const h_components[] = {" + ", ".join("&" + c for c in comps) + "};\n")
        f.write(f"const int h_n_components = {len(comps)};\n")
    jobs.append((base + ["-c", reg, "-o", reg[:-2] + ".o"], reg[:-2] + ".o"))

    def run(j):
        r = sh(j[0])
        return (r.returncode, " ".join(j[0]), r.stdout)
    with ThreadPoolExecutor(NCPU) as ex:
        res = list(ex.map(run, jobs))
    bad = [r for r in res if r[0] != 0]
    if bad:
        msg = "\n".join(f"{b[1]}\n{b[2]}" for b in bad[:5])
        shutil.rmtree(d, ignore_errors=True)
        raise RuntimeError("harness build failed:\n" + msg)
    link = ["gcc"] + VARIANTS[variant] + [j[1] for j in jobs] + [ZSTD_LIB, "-lz", "-lm", "-lpthread",
            "-Wl,--wrap=malloc,--wrap=calloc,--wrap=realloc,--wrap=strdup",
            "-Wl,--wrap=fclose,--wrap=mmap",
            "-Wl,--wrap=carquet_arena_alloc,--wrap=carquet_arena_calloc,--wrap=carquet_arena_alloc_aligned",
            "-Wl,--wrap=carquet_arena_strdup,--wrap=carquet_arena_strndup,--wrap=carquet_arena_memdup", "-o", exe]
    r = sh(link)
    if r.returncode != 0:
        shutil.rmtree(d, ignore_errors=True)
        raise RuntimeError("harness link failed:\n" + r.stdout)
    for j in jobs:
        try:
            os.remove(j[1])
        except OSError:
            pass
    return exe


def lake_build(targets):
    t0 = time.time()
    r = sh(["lake", "build"] + targets, cwd=LEAN)
    return r.returncode == 0, r.stdout, time.time() - t0


FORBIDDEN = re.compile(r"\b(sorry|admit|native_decide|bv_decide|implemented_by)\b|^\s*axiom\s|\bunsafe\s|maxHeartbeats\s+0\b")


def strip_comments(src):
    src = re.sub(r"/-.*?-/", lambda m: "\n" * m.group(0).count("\n"), src, flags=re.S)
    return re.sub(r"--[^\n]*", "", src)


def audit_sources():
    """grep the library (not the driver's IO loop) for forbidden constructs outside comments."""
    hits = []
    for root, _, files in os.walk(os.path.join(LEAN, "Carquet")):
        for f in files:
            if not f.endswith(".lean"):
                continue
            p = os.path.join(root, f)
            for i, line in enumerate(strip_comments(open(p).read()).split("\n"), 1):
                if FORBIDDEN.search(line) or re.search(r"^\s*partial\s+def", line):
                    hits.append(f"{os.path.relpath(p, LEAN)}:{i}: {line.strip()}")
    return hits


ALLOWED_AXIOMS = {"propext", "Classical.choice", "Quot.sound"}


def audit_axioms(module, theorems, tag):
    """#print axioms for every obligation. Returns {thm: (ok, axioms or error)}."""
    os.makedirs(BUILD, exist_ok=True)
    f = os.path.join(BUILD, f"axioms_{tag}.lean")
    with open(f, "w") as fh:
        fh.write(f"import {module}\n")
        for t in theorems:
            fh.write(f"#print axioms {t}\n")
    r = sh(["lake", "env", "lean", f], cwd=LEAN)
    out = r.stdout
    res = {}
    for t in theorems:
        m = re.search(r"'" + re.escape(t) + r"' depends on axioms: \[([^\]]*)\]", out, flags=re.S)
        if m:
            ax = [a.strip() for a in m.group(1).replace("\n", " ").split(",") if a.strip()]
            res[t] = (set(ax) <= ALLOWED_AXIOMS, ax)
        elif re.search(r"'" + re.escape(t) + r"' does not depend on any axioms", out):
            res[t] = (True, [])
        else:
            res[t] = (False, ["<not found or failed to elaborate>"])
    return res, out


def run_harness(exe, comp, seed, tier, outpath, extra=None, timeout=3600, env=None):
    cmd = [exe, comp, "--seed", str(seed), "--tier", tier, "--out", outpath] + (extra or [])
    e = dict(os.environ)
    e.setdefault("ASAN_OPTIONS", "detect_leaks=1:abort_on_error=0:allocator_may_return_null=1")
    e.setdefault("UBSAN_OPTIONS", "print_stacktrace=0")
    if env:
        e.update(env)
    try:
        r = subprocess.run(cmd, stdout=subprocess.PIPE, stderr=subprocess.PIPE, text=True, timeout=timeout, env=e,
                           errors="replace")
        return r.returncode, r.stderr[-20000:]
    except subprocess.TimeoutExpired:
        return -999, "timeout"


def run_driver(ops_path, out_path):
    exe = os.path.join(LEAN, ".lake", "build", "bin", "driver")
    with open(ops_path, "rb") as fin, open(out_path, "wb") as fout:
        r = subprocess.run([exe], stdin=fin, stdout=fout, stderr=subprocess.PIPE)
    return r.returncode, r.stderr.decode(errors="replace")[-5000:]
