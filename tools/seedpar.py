#!/usr/bin/env python3
"""tools/seedpar.py [-j N] <seeded-id>...: confirm (tools/seedconfirm.py) and test (tools/seedtest.py) several seeded changes
in parallel.  Every trial runs from its own private copy of /verif (/tmp/vs/<id>/verif, with the compiled Lean library, its own
harness build directory and its own scratch worktree of /repo), because a check regenerates lean/Carquet/Gen from the tree
it is pointed at: two trials sharing one copy would overwrite each other's generated files.  The results (meta.json, the
harvested corpus line) are copied back into /verif/seeded/<id>/ and /verif/corpus/; the copy is removed."""
import concurrent.futures, glob, json, os, shutil, subprocess, sys

V = os.path.dirname(os.path.dirname(os.path.abspath(__file__)))


def one(sid, extra):
    root = f"/tmp/vs/{sid}"
    shutil.rmtree(root, ignore_errors=True)
    os.makedirs(root)
    cp = os.path.join(root, "verif")
    subprocess.run(["rsync", "-a", "--exclude", ".git", "--exclude", "/build", "--exclude", "/replays", "--exclude", "/evidence",
                    V + "/", cp + "/"], check=True)
    os.makedirs(os.path.join(cp, "evidence"), exist_ok=True)
    out = []
    env = dict(os.environ)
    env.pop("VERIF_BUILD_DIR", None)
    r = subprocess.run([sys.executable, os.path.join(cp, "tools", "seedconfirm.py"), sid], stdout=subprocess.PIPE,
                       stderr=subprocess.STDOUT, text=True, env=env)
    out.append((r.stdout.strip().split("\n") or [""])[-1][:200])
    r = subprocess.run([sys.executable, os.path.join(cp, "tools", "seedtest.py"), sid] + extra, stdout=subprocess.PIPE,
                       stderr=subprocess.STDOUT, text=True, env=env)
    out += [l for l in r.stdout.strip().split("\n") if "->" in l][-3:]
    # copy the results back
    src = os.path.join(cp, "seeded", sid, "meta.json")
    if os.path.exists(src):
        txt = open(src).read().replace(cp, V)
        open(os.path.join(V, "seeded", sid, "meta.json"), "w").write(txt)
    for f in glob.glob(os.path.join(cp, "corpus", "C??", f"seeded-{sid}.ops")):
        dst = os.path.join(V, "corpus", os.path.basename(os.path.dirname(f)), os.path.basename(f))
        if not os.path.exists(dst):
            shutil.copy(f, dst)
    for f in glob.glob(os.path.join(cp, "replays", f"*trial-{sid}.json")):
        os.makedirs(os.path.join(V, "replays"), exist_ok=True)
        shutil.copy(f, os.path.join(V, "replays", os.path.basename(f)))
    shutil.rmtree(root, ignore_errors=True)
    return sid, out


def main():
    args = sys.argv[1:]
    j = 4
    if args and args[0] == "-j":
        j = int(args[1]); args = args[2:]
    extra = []
    if "--" in args:
        k = args.index("--"); extra = args[k + 1:]; args = args[:k]
    with concurrent.futures.ThreadPoolExecutor(max_workers=j) as ex:
        for sid, out in ex.map(lambda s: one(s, extra), args):
            print(sid, "|", " | ".join(out), flush=True)


if __name__ == "__main__":
    main()
