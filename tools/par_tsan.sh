#!/bin/sh
# ThreadSanitizer runs for C07 (documented in NOTES_par.md / NOTES_par2.md).  check.py cannot mix build variants
# inside one property, so the harness component `partsan` (harness/ops_partsan.c) calls this script in the THOROUGH
# tier (clang mode) and turns its outcome into one op line.  Two builds:
#   gcc   : VARIANTS["tsan"] of tools/vlib.py (gcc + libgomp).  libgomp is not instrumented, so
#           only the scenarios without OpenMP worker threads are meaningful (VERIF_PAR_ONLY=pthread).
#   clang : clang-14 + LLVM libomp + the Archer OMPT tool (libarcher.so), which tells TSan about
#           OpenMP's fork/join/barrier/critical synchronisation -> the OpenMP loops of
#           carquet_batch_reader_next can be analysed.
# usage: tools/par_tsan.sh gcc|clang [seed] [tier]       (VERIF_REPO selects the tree; VERIF_BUILD_DIR the scratch
#        directory, default <verif>/build; PAR_TSAN_TAG a suffix that keeps concurrent runs apart)
# outputs: <build>/par-tsan-<mode><tag>.ops (op lines) and .err (sanitizer reports); exit 77 = tool chain missing
set -e
V=$(cd "$(dirname "$0")/.." && pwd)
REPO=${VERIF_REPO:-/repo}
MODE=${1:-gcc}; SEED=${2:-1}; TIER=${3:-quick}
RC=0
B=${VERIF_BUILD_DIR:-$V/build}
TAG=${PAR_TSAN_TAG:+-$PAR_TSAN_TAG}
mkdir -p "$B"
if [ "$MODE" = gcc ]; then
  EXE=$(cd "$V/tools" && VERIF_REPO="$REPO" python3 -c "import vlib; print(vlib.build_harness('tsan'))")
  TSAN_OPTIONS="halt_on_error=0 exitcode=0 report_signal_unsafe=0" VERIF_PAR_ONLY=pthread \
    "$EXE" par --seed "$SEED" --tier "$TIER" --out "$B/par-tsan-gcc$TAG.ops" 2> "$B/par-tsan-gcc$TAG.err" || true
  OUT="$B/par-tsan-gcc$TAG"
else
  CC=clang-14
  if ! command -v $CC >/dev/null 2>&1 || [ ! -e /usr/lib/llvm-14/lib/libarcher.so ] || [ ! -e /usr/lib/llvm-14/lib/libomp.so ]; then
    echo "SKIP: clang-14 / libomp / libarcher not installed"; exit 77
  fi
  D="$B/h-tsan-clang$TAG"; rm -rf "$D"; mkdir -p "$D"
  BASE="-std=gnu11 -w -O1 -g -fsanitize=thread -fopenmp -DCARQUET_ARCH_X86 -DCARQUET_ENABLE_SSE -DCARQUET_ENABLE_AVX2 -DCARQUET_ENABLE_AVX512 -DCARQUET_VERIF -I$REPO/include -I$REPO/src -isystem /root/miniconda/include -I$V/harness"
  OBJS=""
  for f in $(cd "$REPO" && find src -name '*.c' | grep -v simd/arm | sort); do
    o="$D/$(echo "$f" | tr / _ | sed 's/\.c$/.o/')"
    X=""
    case "$f" in
      src/simd/x86/sse_ops.c) X="-msse4.2";;
      src/simd/x86/avx2_ops.c) X="-mavx2 -mbmi2";;
      src/simd/x86/avx512_ops.c) X="-mavx512f -mavx512bw -mavx512vl";;
    esac
    $CC $BASE $X -c "$REPO/$f" -o "$o" &
    OBJS="$OBJS $o"
  done
  wait
  cat > "$D/registry.c" <<EOF
#include "common.h"
extern const h_component comp_par;
extern const h_component comp_pardict;
const h_component* const h_components[] = { &comp_par, &comp_pardict };
const int h_n_components = 2;
EOF
  for f in main.c alloc_wrap.c ops_par.c ops_pardict.c; do $CC $BASE -c "$V/harness/$f" -o "$D/hx_${f%.c}.o"; OBJS="$OBJS $D/hx_${f%.c}.o"; done
  $CC $BASE -c "$D/registry.c" -o "$D/registry.o"
  $CC -fsanitize=thread -fopenmp $OBJS "$D/registry.o" /root/miniconda/lib/libzstd.a -lz -lm -lpthread \
      -Wl,--wrap=malloc,--wrap=calloc,--wrap=realloc,--wrap=strdup \
      -Wl,--wrap=carquet_arena_alloc,--wrap=carquet_arena_calloc,--wrap=carquet_arena_alloc_aligned \
      -Wl,--wrap=carquet_arena_strdup,--wrap=carquet_arena_strndup,--wrap=carquet_arena_memdup -o "$D/harness"
  OUT="$B/par-tsan-clang$TAG"
  OMP_TOOL_LIBRARIES=/usr/lib/llvm-14/lib/libarcher.so ARCHER_OPTIONS="verbose=1" \
  TSAN_OPTIONS="halt_on_error=0 exitcode=0 report_signal_unsafe=0 ignore_noninstrumented_modules=1" \
  LD_LIBRARY_PATH=/usr/lib/llvm-14/lib \
    timeout 1500 "$D/harness" par --seed "$SEED" --tier "$TIER" --out "$OUT.ops" 2> "$OUT.err" || RC=$?
  # the dictionary-encoded files of the Lean reference writer (needs the built driver); clang emits __kmpc_critical, so
  # the GOMP interposer of ops_pardict.c stays unused here: no section events, no schedule points at section boundaries
  if [ -x "$V/lean/.lake/build/bin/driver" ]; then
    "$V/lean/.lake/build/bin/driver" --gen pardict "$SEED" "$TIER" > "$OUT-pardict.in"
    OMP_TOOL_LIBRARIES=/usr/lib/llvm-14/lib/libarcher.so ARCHER_OPTIONS="verbose=1" \
    TSAN_OPTIONS="halt_on_error=0 exitcode=0 report_signal_unsafe=0 ignore_noninstrumented_modules=1" \
    LD_LIBRARY_PATH=/usr/lib/llvm-14/lib \
      timeout 1500 "$D/harness" pardict --seed "$SEED" --tier "$TIER" --in "$OUT-pardict.in" --out "$OUT-pardict.ops" 2>> "$OUT.err" || RC=$?
    cat "$OUT-pardict.ops" >> "$OUT.ops"
  fi
  rm -rf "$D" "$OUT-pardict.in" "$OUT-pardict.ops"
fi
echo "harness_rc=$RC"
echo "reports: $(grep -c 'WARNING: ThreadSanitizer' "$OUT.err" || true)"
grep 'SUMMARY' "$OUT.err" | sed 's/ (harness.*//; s/(.*+0x[0-9a-f]*)//' | sort | uniq -c | sort -rn | head -40
echo "lines with property predicate true : $(grep -c 'p_same_as_[a-z]*=1' "$OUT.ops" || true)"
echo "lines with property predicate false: $(grep -c 'p_[a-z_]*=0' "$OUT.ops" || true)"
