#!/usr/bin/env python3
"""MANIFEST.setup_cmd: build the framework from files on disk only (offline)."""
import os, subprocess, sys
sys.path.insert(0, os.path.dirname(os.path.abspath(__file__)))
import vlib
r = subprocess.run([sys.executable, os.path.join(vlib.VERIF, "translate", "gen.py")])
if r.returncode != 0:
    sys.exit(r.returncode)
ok, log, dt = vlib.lake_build([])
print(log[-2000:])
print(f"lake build: {'ok' if ok else 'FAILED'} in {dt:.0f}s")
if not ok:
    sys.exit(1)
exe = vlib.build_harness("asan")
print("harness:", exe)
