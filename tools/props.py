"""Per-property configuration of the checks: Lean module holding the property theorems, the
obligations (theorem names), the harness components that tie the model to the code."""

COMMON_TRUST = [
    "Lean 4.33.0 kernel (thorough tier: also leanchecker on the property module)",
    "axioms reported per theorem by #print axioms (only propext, Classical.choice, Quot.sound are accepted)",
    "translate/gen.py (regex extraction of constants/tables from /repo)",
    "harness/*.c + lean/Driver (line protocol, hand-written correspondence); gcc 12, ASan/UBSan",
    "the theorems are about the Lean Impl models; the C code is tied to them by sampled differential execution",
]

PROPS = {}
NOT_APPLICABLE = {}
HOOK_COMMITS = []

PROPS["C14"] = dict(
    module="Carquet.Properties.C14",
    obligations=["Carquet.Properties.C14.C14_poly_is_ieee"],
    components=["crc"],
    level="proof",
    rule="all lengths 0..257 (thorough 0..1025) x alignment x fill kind; all splits of strings <= 24 bytes + random "
         "splits; distinct = distinct (op, input bytes); non-trivial = every case (the empty input is tagged triv)",
    trusted_base=COMMON_TRUST + ["zlib crc32() as C-side oracle"],
    assumptions=["little-endian host (memcpy loads)", "ARM hardware CRC path not compiled on this host"],
    fidelity={"Impl.Crc32": "exact"},
    text="(under construction) polynomial constant proved equal to the IEEE one; carquet_crc32/_update tied to the bit-serial Spec by exhaustive-length correspondence",
    level_note="Lean kernel; translator; harness; zlib as second oracle",
    technique="Lean 4 proof over bit-serial CRC spec + table model, correspondence to C by differential execution",
)
