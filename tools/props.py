"""Per-property configuration of the checks, merged from tools/parts/*.py (one part per model
component): Lean module holding the property theorems, the obligations (theorem names), the
harness components that tie the model to the code."""
import glob, importlib.util, os

HERE = os.path.dirname(os.path.abspath(__file__))

COMMON_TRUST = [
    "Lean 4.33.0 kernel (thorough tier: also leanchecker on the property module)",
    "axioms reported per theorem by #print axioms (only propext, Classical.choice, Quot.sound are accepted)",
    "translate/gen.py (regex extraction of constants/tables from /repo)",
    "harness/*.c + lean/Driver (line protocol, hand-written correspondence); gcc 12, ASan/UBSan",
    "the theorems are about the Lean Impl models; the C code is tied to them by sampled differential execution",
]

# A property is claimed in MANIFEST as soon as some part supplies a `text` for it.
NOT_APPLICABLE = {}
# properties whose check exists but is not registered yet (e.g. repairs of genuine defects it reports are still being
# committed to /repo); empty when everything built is claimed
HOLD = {}
import os as _os
if _os.environ.get("VERIF_UNHOLD"):
    HOLD = {}
HOOK_COMMITS = ["ad35b42", "817258c"]


def load_parts():
    parts = []
    for p in sorted(glob.glob(os.path.join(HERE, "parts", "*.py"))):
        spec = importlib.util.spec_from_file_location("part_" + os.path.basename(p)[:-3], p)
        m = importlib.util.module_from_spec(spec)
        spec.loader.exec_module(m)
        parts.append((os.path.basename(p)[:-3], m.PART))
    return parts


def merged():
    props = {}
    for name, part in load_parts():
        for pid, d in part.items():
            c = props.setdefault(pid, dict(module=f"Carquet.Properties.{pid}", imports=[], obligations=[],
                                           components=[], fidelity={}, rules=[], assumptions=[],
                                           trusted_base=list(COMMON_TRUST), level="proof"))
            for k in ("imports", "obligations", "components", "assumptions"):
                for x in d.get(k, []):
                    if x not in c[k]:
                        c[k].append(x)
            for x in d.get("trusted_base", []):
                if x not in c["trusted_base"]:
                    c["trusted_base"].append(x)
            c["fidelity"].update(d.get("fidelity", {}))
            if d.get("rule"):
                c["rules"].append(d["rule"])
            for k in ("text", "level_note", "technique"):
                if d.get(k):
                    c.setdefault(k + "s", []).append(d[k])
            for k in ("variant", "timeout", "shards"):
                if k in d:
                    c[k] = d[k]
            c.setdefault("pregen", {}).update(d.get("pregen", {}))
    for pid, c in props.items():
        c["rule"] = " || ".join(c["rules"])
        c["text"] = " || ".join(c.get("texts", []))
        c["level_note"] = " || ".join(dict.fromkeys(c.get("level_notes", []))) or "Lean kernel; translator; correspondence harness"
        c["technique"] = "; ".join(dict.fromkeys(c.get("techniques", []))) or \
            "Lean 4 proof over executable model + differential correspondence to the C code"
    return {pid: c for pid, c in props.items() if c.get("texts") and pid not in HOLD}


PROPS = merged()
