"""Per-property configuration of the checks, merged from tools/parts/*.py (one part per model
component): Lean module holding the property theorems, the obligations (theorem names), the
harness components that tie the model to the code."""
import glob, importlib.util, os

HERE = os.path.dirname(os.path.abspath(__file__))

COMMON_TRUST = [
    "Lean 4.33.0 kernel (thorough tier: also leanchecker on the property module)",
    "axioms reported per theorem by #print axioms (only propext, Classical.choice, Quot.sound are accepted)",
    "translate/gen.py (regex extraction of constants/tables from /repo)",
    "harness/*.c + lean/Driver (line protocol, hand-written correspondence); gcc 12, ASan/UBSan",
    "the theorems are about the Lean Impl models; the C code is tied to them by sampled differential execution",
]

# what each claimed property's check delivers, in my own words (kept current as the model grows)
TEXT = {
    "C14": dict(
        text="(under construction) polynomial constant proved equal to the IEEE one; carquet_crc32/_update tied to "
             "the bit-serial Spec by exhaustive-length correspondence",
        level_note="Lean kernel; translator; harness; zlib as second oracle",
        technique="Lean 4 proof over bit-serial CRC spec + table model, correspondence to C by differential execution"),
}
TEXT["C17"] = dict(
    text="Proved for every schema tree (unbounded depth/size, all labelings): build_schema's recursive descent over the "
         "depth-first element list yields exactly the leaves in order with def/rep levels of the format rule "
         "(C17_traverse_eq_spec), column count, element accessors per column, lookup by name, and the builder for any "
         "number of add_column calls; plus a linear work bound for arbitrary (malformed) element lists. The Impl model is "
         "tied to build_schema/find_column/builder by differential execution on random well-formed and malformed trees. "
         "Nested schemas reach the real reader only through in-memory metadata here (file-level tie via C06 reference files).",
    level_note="Lean kernel; hand-written Impl.Schema tied by sampled correspondence; names NUL-free; logical type carried verbatim",
    technique="Lean 4 proof by structural induction over schema trees + differential correspondence")
NOT_APPLICABLE = {}
HOOK_COMMITS = []


def load_parts():
    parts = []
    for p in sorted(glob.glob(os.path.join(HERE, "parts", "*.py"))):
        spec = importlib.util.spec_from_file_location("part_" + os.path.basename(p)[:-3], p)
        m = importlib.util.module_from_spec(spec)
        spec.loader.exec_module(m)
        parts.append((os.path.basename(p)[:-3], m.PART))
    return parts


def merged():
    props = {}
    for name, part in load_parts():
        for pid, d in part.items():
            c = props.setdefault(pid, dict(module=f"Carquet.Properties.{pid}", imports=[], obligations=[],
                                           components=[], fidelity={}, rules=[], assumptions=[],
                                           trusted_base=list(COMMON_TRUST), level="proof"))
            for k in ("imports", "obligations", "components", "assumptions"):
                for x in d.get(k, []):
                    if x not in c[k]:
                        c[k].append(x)
            for x in d.get("trusted_base", []):
                if x not in c["trusted_base"]:
                    c["trusted_base"].append(x)
            c["fidelity"].update(d.get("fidelity", {}))
            if d.get("rule"):
                c["rules"].append(d["rule"])
            for k in ("variant", "timeout"):
                if k in d:
                    c[k] = d[k]
    for pid, c in props.items():
        c["rule"] = " || ".join(c["rules"])
        t = TEXT.get(pid, {})
        c["text"] = t.get("text", "(under construction)")
        c["level_note"] = t.get("level_note", "Lean kernel; translator; correspondence harness")
        c["technique"] = t.get("technique", "Lean 4 proof over executable model + differential correspondence to the C code")
    # only properties with a TEXT entry are claimed in MANIFEST
    return {pid: c for pid, c in props.items() if pid in TEXT}


PROPS = merged()
