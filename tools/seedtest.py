#!/usr/bin/env python3
"""tools/seedtest.py <seeded-dir> [--tier quick|thorough] [--props C11,C12]
Apply /verif/seeded/<id>/patch.diff to /repo, run the checks of the property it breaks (and any
extra ones given), report which raise VIOLATION, and restore /repo.  Never commits to /repo."""
import json, os, subprocess, sys, time

V = os.path.dirname(os.path.dirname(os.path.abspath(__file__)))
REPO = "/repo"


def sh(cmd, **kw):
    return subprocess.run(cmd, stdout=subprocess.PIPE, stderr=subprocess.STDOUT, text=True, **kw)


def main():
    d = sys.argv[1].rstrip("/")
    if not os.path.isabs(d):
        d = os.path.join(V, "seeded", d)
    tier = "quick"
    props = None
    a = sys.argv[2:]
    while a:
        if a[0] == "--tier":
            tier = a[1]; a = a[2:]
        elif a[0] == "--props":
            props = a[1].split(","); a = a[2:]
        else:
            a = a[1:]
    meta = json.load(open(os.path.join(d, "meta.json")))
    props = props or [meta["property"]]
    st = sh(["git", "-C", REPO, "status", "--porcelain", "--untracked-files=no"]).stdout.strip()
    if st:
        print("refusing: /repo has uncommitted changes:\n" + st)
        return 2
    r = sh(["git", "-C", REPO, "apply", os.path.join(d, "patch.diff")])
    if r.returncode != 0:
        print("patch does not apply:", r.stdout)
        return 2
    results = {}
    try:
        for p in props:
            t0 = time.time()
            c = sh([sys.executable, os.path.join(V, "tools", "check.py"), "--property", p, "--tier", tier], cwd=V)
            viol = [l for l in c.stdout.split("\n") if l.startswith("VIOLATION")]
            results[p] = dict(exit=c.returncode, violation=viol[0] if viol else None, wall_s=round(time.time() - t0, 1),
                              tail=c.stdout.strip().split("\n")[-4:])
            print(p, "->", "DETECTED" if viol else "missed", viol[0] if viol else "", f"({results[p]['wall_s']}s)")
    finally:
        sh(["git", "-C", REPO, "checkout", "--", "."])
        sh(["git", "-C", REPO, "clean", "-fdq", "src", "include", "tests"])
    meta.setdefault("checked", {})
    meta["checked"][tier] = {p: dict(detected=bool(v["violation"]), line=v["violation"], wall_s=v["wall_s"]) for p, v in results.items()}
    meta["checked_at_repo"] = sh(["git", "-C", REPO, "rev-parse", "--short", "HEAD"]).stdout.strip()
    json.dump(meta, open(os.path.join(d, "meta.json"), "w"), indent=1)
    return 0


if __name__ == "__main__":
    sys.exit(main())
