#!/usr/bin/env python3
"""tools/seedtest.py <seeded-dir> [--tier quick|thorough] [--props C11,C12] [--in-repo]
Apply /verif/seeded/<id>/patch.diff, run the checks of the property it breaks (and any extra ones
given) and report which raise VIOLATION.  Default: in a scratch worktree of /repo HEAD
(/tmp/wt-seed-<pid>, VERIF_REPO points the checks at it; evidence and replays of the trial go to a
temporary directory), so that nothing else that reads /repo at the same time sees the change.
--in-repo: apply to /repo itself (git apply ... checkout), as a user of the checks would.
Never commits to /repo."""
import json, os, subprocess, sys, time

V = os.path.dirname(os.path.dirname(os.path.abspath(__file__)))
REPO = "/repo"


def sh(cmd, **kw):
    return subprocess.run(cmd, stdout=subprocess.PIPE, stderr=subprocess.STDOUT, text=True, **kw)


def harvest(sid, prop, viol_line):
    """keep the input that exposed a seeded change as a corpus line of the property (corpus/<prop>/seeded-<id>.ops): the
    corpus runs first on every check, so the detection no longer depends on what the generator happens to draw for a seed"""
    import re
    m = re.search(r"replay=(\S+)", viol_line)
    if not m or not os.path.exists(m.group(1)):
        return
    path = m.group(1)
    try:
        body = json.load(open(path))
        out = os.path.join(V, "corpus", prop, f"seeded-{sid}.ops")
        lines = []
        for it in body.get("lines", []):
            l = it.get("line", "")
            if not l or l.startswith("<") or l.startswith("#"):
                continue
            inp = l.split(" | ")[0].rstrip()
            if len(inp) < 60000 and inp not in lines:
                lines.append(inp)
            if len(lines) >= 2:
                break
        if lines and not os.path.exists(out):
            os.makedirs(os.path.dirname(out), exist_ok=True)
            with open(out, "w") as f:
                f.write(f"# inputs on which the check of {prop} exposed the seeded change {sid} (must pass on the unchanged tree)\n")
                f.write("\n".join(lines) + "\n")
    finally:
        try:
            os.remove(path)
        except OSError:
            pass


def main():
    d = sys.argv[1].rstrip("/")
    if not os.path.isabs(d):
        d = os.path.join(V, "seeded", d)
    tier = "quick"
    props = None
    a = sys.argv[2:]
    while a:
        if a[0] == "--tier":
            tier = a[1]; a = a[2:]
        elif a[0] == "--props":
            props = a[1].split(","); a = a[2:]
        else:
            a = a[1:]
    meta = json.load(open(os.path.join(d, "meta.json")))
    props = props or [meta["property"]]
    in_repo = "--in-repo" in sys.argv
    env = dict(os.environ)
    global REPO
    wt = None
    if not in_repo:
        wt = f"/tmp/wt-seed-{os.getpid()}"
        r = sh(["git", "-C", "/repo", "worktree", "add", "--detach", wt, "HEAD"])
        if r.returncode != 0:
            print("cannot create scratch worktree:", r.stdout); return 2
        REPO = wt
        env["VERIF_REPO"] = wt
        env["VERIF_EVIDENCE_DIR"] = f"/tmp/seed-evidence-{os.getpid()}"
        env["VERIF_BUILD_DIR"] = f"/tmp/seed-build-{os.getpid()}"
        env["VERIF_REPLAY_SUFFIX"] = "-" + os.path.basename(d)
    st = sh(["git", "-C", REPO, "status", "--porcelain", "--untracked-files=no"]).stdout.strip()
    if st:
        print("refusing: the tree has uncommitted changes:\n" + st)
        return 2
    r = sh(["git", "-C", REPO, "apply", os.path.join(d, "patch.diff")])
    if r.returncode != 0:
        print("patch does not apply:", r.stdout)
        if wt: sh(["git", "-C", "/repo", "worktree", "remove", "--force", wt])
        return 2
    results = {}
    try:
        for p in props:
            t0 = time.time()
            c = sh([sys.executable, os.path.join(V, "tools", "check.py"), "--property", p, "--tier", tier], cwd=V, env=env)
            viol = [l for l in c.stdout.split("\n") if l.startswith("VIOLATION")]
            results[p] = dict(exit=c.returncode, violation=viol[0] if viol else None, wall_s=round(time.time() - t0, 1),
                              tail=c.stdout.strip().split("\n")[-4:])
            print(p, "->", "DETECTED" if viol else "missed", viol[0] if viol else "", f"({results[p]['wall_s']}s)")
            if viol and not in_repo:
                harvest(os.path.basename(d), p, viol[0])
    finally:
        if wt:
            sh(["git", "-C", "/repo", "worktree", "remove", "--force", wt])
            sh(["rm", "-rf", env["VERIF_EVIDENCE_DIR"]])
            sh(["rm", "-rf", env["VERIF_BUILD_DIR"]])
        else:
            sh(["git", "-C", REPO, "checkout", "--", "."])
            sh(["git", "-C", REPO, "clean", "-fdq", "src", "include", "tests"])
    meta.setdefault("checked", {})
    meta["checked"][tier] = {p: dict(detected=bool(v["violation"]), line=v["violation"], wall_s=v["wall_s"]) for p, v in results.items()}
    meta["checked_at_repo"] = sh(["git", "-C", "/repo", "rev-parse", "--short", "HEAD"]).stdout.strip()
    json.dump(meta, open(os.path.join(d, "meta.json"), "w"), indent=1)
    return 0


if __name__ == "__main__":
    sys.exit(main())
