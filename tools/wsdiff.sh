#!/bin/sh
# list files that differ between an agent workspace and /verif: tools/wsdiff.sh <name>
cd /tmp/w/$1/verif && rsync -rcn --out-format='%n' --exclude .git --exclude build --exclude 'lean/.lake' --exclude replays --exclude evidence --exclude 'lean/Carquet/Gen' --exclude __pycache__ --exclude 'lean/Carquet.lean' --exclude 'lean/Driver/Main.lean' --exclude 'lean/Carquet/Properties/C??.lean' --exclude MANIFEST.json ./ /verif/ | grep -v '/$'
