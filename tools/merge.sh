#!/bin/sh
# copy a component builder's own deliverables into /verif: tools/merge.sh <name> <file>...
n="$1"; shift
for f in "$@"; do mkdir -p "/verif/$(dirname $f)"; cp "/tmp/w/$n/verif/$f" "/verif/$f"; done
[ -f /tmp/w/$n/verif/NOTES_$n.md ] && cp /tmp/w/$n/verif/NOTES_$n.md /verif/notes/
mkdir -p /verif/fixes-pending/$n && cp /tmp/w/$n/verif/fixes/* /verif/fixes-pending/$n/ 2>/dev/null
echo merged $n
