#!/usr/bin/env python3
"""Summarise /verif/seeded/*/meta.json as a markdown table (written to seeded/README.md)."""
import glob, json, os
V = os.path.dirname(os.path.dirname(os.path.abspath(__file__)))
rows = []
for p in sorted(glob.glob(os.path.join(V, "seeded", "*", "meta.json"))):
    m = json.load(open(p)); sid = os.path.basename(os.path.dirname(p))
    conf = m.get("confirmed", {})
    good = all(conf.get(k) for k in ("patch_applies", "builds_with_change", "suite_passes_with_change", "demo_fails_with_change", "demo_passes_without_change"))
    chk = m.get("checked", {}).get("quick", {})
    det = "; ".join(f"{k}: {'DETECTED' if v['detected'] else 'missed'}{' (no-failing-input-found)' if v.get('line') and 'no-failing' in v['line'] else ''}" for k, v in chk.items()) or "-"
    if m.get("status"):
        det = m["status"][:60]
    rows.append((sid, (m.get("summary") or "")[:150].replace("|", "/").replace("\n", " "), (m.get("needs_to_manifest") or "")[:110].replace("|", "/").replace("\n", " "),
                 "yes" if good else "no", det))
out = "# Seeded changes (independent sub-agents; each confirmed in a scratch worktree)\n\n| id | change | needs to manifest | confirmed | quick check |\n|---|---|---|---|---|\n"
out += "".join(f"| {a} | {b} | {c} | {d} | {e} |\n" for a, b, c, d, e in rows)
open(os.path.join(V, "seeded", "README.md"), "w").write(out)
print(out)
