#!/usr/bin/env python3
"""tools/addtext.py <ws-name> [<part-name>]: take the TEXT entries a component builder wrote in its copy of
tools/props.py and append them to /verif/tools/parts/<part>.py as text/level_note/technique."""
import sys, re, os, pprint
name = sys.argv[1]; part = sys.argv[2] if len(sys.argv) > 2 else name
src = open(f"/tmp/w/{name}/verif/tools/props.py").read()
# evaluate only the TEXT assignments
ns = {"TEXT": {}}
i = src.index("TEXT = {") if "TEXT = {" in src else src.index("TEXT")
j = src.index("NOT_APPLICABLE")
code = src[i:j]
exec(code, ns)
pp = f"/verif/tools/parts/{part}.py"
s = open(pp).read()
ns2 = {}
exec(s, ns2)
add = "\n# what the check delivers, in the component builder's words\n"
for pid, d in ns["TEXT"].items():
    if pid in ns2["PART"] and "text" not in ns2["PART"][pid]:
        add += f"PART[{pid!r}].update(\n    text={d.get('text','')!r},\n    level_note={d.get('level_note','')!r},\n    technique={d.get('technique','')!r})\n"
open(pp, "w").write(s.rstrip() + "\n" + add)
print("added", [p for p in ns["TEXT"] if p in ns2["PART"]])
